"""C19 - splitting multi-port entries into single-port entries keeps the meaning."""
from __future__ import annotations

import random

from harness import core, acegen
from harness.core import Case, coq_list, outcome

LEVEL = "proof"
MODEL_TARGETS = ["run/RunSplit.vo", "run/RunOps.vo"]
RULE = ("IOS ACEs whose source and/or destination port is eq/neq with 1..10 operands (also gt/lt/range/none on the "
        "other side), with plain addresses or address groups with members, flags, logs; Ace.ungroup_ports on single "
        "entries and Acl/AceGroup.ungroup_ports on ACLs of 1..6 entries with remarks (flat and grouped), and the "
        "automatic split of Acl.platform='nxos'. Non-trivial = at least one entry is really split; distinct = "
        "distinct text.")
IMPORTS = ["gen.Tables", "model.Cfg", "model.Names", "model.Wildcard", "model.Addr", "model.Ports", "model.Ace",
           "model.SplitPorts", "run.RunAce", "run.RunSplit"]


def gen_ace(rnd, multi=True):
    a = acegen.rand_ace(rnd, "ios", groups=True)
    a["proto"] = rnd.choice([6, 17])
    for side in ("sport", "dport"):
        r = rnd.random()
        if r < 0.25:
            a[side] = None
        elif r < 0.8 and multi:
            op = rnd.choice(["eq", "eq", "eq", "neq"])
            k = rnd.choice([1, 2, 2, 3, 5, 10]) if op == "eq" else rnd.choice([1, 1, 2, 3])
            a[side] = (op, sorted(rnd.sample(range(1, 65536), k - 1) + [rnd.choice([1, 0, 80, 65535])]))
        else:
            a[side] = acegen.rand_port(rnd, "ios")
    if a["proto"] != 6:
        a["flags"] = []
    return a


def multi_neq(a):
    return any(a[s] is not None and a[s][0] == "neq" and len(a[s][1]) >= 2 for s in ("sport", "dport"))


def correspond(ctx):
    ca = core.impl_module()
    from cisco_acl import protocol as pr
    rnd = random.Random(ctx.seed)
    n = 140 if ctx.tier == "quick" else 2000
    cases, nontrivial = [], set()
    names = pr.NR_TO_PROTOCOL["ios"]
    for _ in range(n):
        a = gen_ace(rnd)
        sp = acegen.spell_ace(rnd, "ios", a, names)
        meta = {"k": "ace", "text": sp["text"], "members": [sp["src_members"], sp["dst_members"]], "abstract": a}

        def run(sp=sp):
            o = acegen.build_impl(ca, "ios", sp)
            res = o.ungroup_ports()
            return [[acegen.obs_ace(x) for x in res], len(res) == 1 and res[0] is o]
        impl = outcome(run)
        cases.append(Case(f"run_split Ios false 16%Z {sp['fields']}", impl, meta))
        if not isinstance(impl, core.Err) and len(impl[0]) > 1:
            nontrivial.add(sp["text"])
    # ACL level: in place, remarks kept, also through platform = nxos
    m = 50 if ctx.tier == "quick" else 500
    for _ in range(m):
        entries = []
        for _ in range(rnd.randint(1, 6)):
            entries.append(None if rnd.random() < 0.2 else gen_ace(rnd, multi=rnd.random() < 0.7))
        sps = [None if e is None else acegen.spell_ace(rnd, "ios", e, names) for e in entries]
        via = rnd.choice(["acl", "acl", "aceg", "grouped"])
        meta = {"k": "acl", "via": via, "texts": [None if s is None else s["text"] for s in sps],
                "members": [None if s is None else [s["src_members"], s["dst_members"]] for s in sps],
                "abstract": entries}

        def run(sps=sps, via=via):
            lines = ["remark = H" + str(i) if s is None else s["text"] for i, s in enumerate(sps)]
            if via == "aceg":
                o = ca.AceGroup("\n".join(lines), platform="ios")
            else:
                o = ca.Acl("ip access-list extended A\n" + "\n".join(lines), platform="ios")
            for it, s in zip(o.items, sps):
                if s is not None:
                    if s["src_members"] is not None:
                        it.srcaddr.items = list(s["src_members"])
                    if s["dst_members"] is not None:
                        it.dstaddr.items = list(s["dst_members"])
            if via == "grouped":
                o.group("= ")
            o.ungroup_ports()
            out = []
            for it in o.items:
                sub = it.items if it.__class__.__name__ == "AceGroup" else [it]
                for x in sub:
                    out.append("remark" if x.__class__.__name__ == "Remark" else acegen.obs_ace(x))
            return out
        impl = outcome(run)
        cases.append(Case("run_acl_split Ios false 16%Z " + coq_list("None" if s is None else f"(Some {s['fields']})" for s in sps),
                          impl, meta))
        if not isinstance(impl, core.Err) and len(impl) > len(sps):
            nontrivial.add(repr(meta["texts"]))
    ctx.samples += [cases[0].meta["text"], cases[n // 2].meta["text"], cases[-1].meta["texts"]]
    ctx.coverage["distinct_nontrivial"] = len(nontrivial)
    ctx.coverage["input_distribution"] = {"aces": n, "acls": m, "really_split": len(nontrivial),
                                          "multi_neq": sum(1 for c in cases[:n] if multi_neq(c.meta["abstract"]))}
    core.eval_cases(ctx, "K-split", IMPORTS, cases, chunk=max(4, len(cases) // 16 + 1))
    _split_histories(ctx, ca, rnd)


def _split_histories(ctx, ca, rnd):
    """ungroup_ports / platform=nxos inside histories: ACLs with many multi-port entries per block, grouped by
    remarks, edited through insert() (loose entries beside the blocks), then split - model/Ops.v vs implementation,
    and the C17 oracle (reference rule list) for a failing input"""
    from harness.kernels import ops, acetext
    from harness.props import C17
    specs = []
    for _ in range(40 if ctx.tier == "quick" else 400):
        body = []
        multi = []          # (index in body, abstract entry) of the entries that will be split
        for i in range(rnd.randint(3, 8)):
            if rnd.random() < 0.18:
                body.append("remark " + rnd.choice(["= B1", "= B2", "plain"]))
                continue
            a = gen_ace(rnd, multi=rnd.random() < 0.8)
            for f in ("sport", "dport"):
                # keep the histories cheap: short eq lists, no 65k-element port sets (neq / gt / lt)
                if a[f] and a[f][0] == "eq":
                    a[f] = ("eq", [x for x in a[f][1][:3] if x] or [80])
                elif a[f] and a[f][0] in ("neq", "gt", "lt"):
                    a[f] = ("range", [max(1, a[f][1][0]), min(65535, max(1, a[f][1][0]) + 9)])
            for f in ("src", "dst"):
                if a[f][0] != "set":
                    a[f] = ("set", 0x0A000000 + i, 0)
            body.append(" ".join(acetext.valid_text(rnd, ca, "ios", "0", a, None)))
            if any(a[f] and a[f][0] == "eq" and len(a[f][1]) > 1 for f in ("sport", "dport")):
                multi.append((len(body) - 1, a))
        if multi and rnd.random() < 0.5:
            # an entry that EQUALS one of the single-port entries a split will produce, standing above or below the
            # entry that is split (a split must not drop, merge or reorder anything because of it)
            at, a = rnd.choice(multi)
            b = dict(a)
            for f in ("sport", "dport"):
                if b[f] and b[f][0] == "eq":
                    b[f] = ("eq", [rnd.choice(b[f][1])])
            line = " ".join(acetext.valid_text(rnd, ca, "ios", "0", b, None))
            body.insert(rnd.choice([at, at + 1, len(body), 0]), line)
        spec = {"platform": "ios", "port_nr": rnd.random() < 0.2, "protocol_nr": False, "body": body, "ops": []}
        try:
            a_ = ops.build(ca, spec)
        except Exception:  # noqa
            continue
        plan = rnd.choice([["group", "ungroup_ports"], ["group", "insert", "ungroup_ports"], ["ungroup_ports"],
                           ["group", "insert", "insert", "platform"], ["group", "ungroup_ports", "ungroup", "ungroup_ports"],
                           ["insert", "group", "platform"], ["group", "platform"]])
        for k in plan:
            op = {"group": ["group", "= "], "platform": ["platform", "nxos"]}.get(k) or ops.next_op(rnd, ca, a_, [k])
            spec["ops"].append(op)
            try:
                a_ = ops.apply_op(ca, a_, op)
            except Exception:  # noqa
                break
        specs.append(spec)
    cases = ops.cases_for(ca, specs)
    core.eval_cases(ctx, "K-split-history", ops.IMPORTS, cases, chunk=max(4, len(cases) // 16 + 1))
    for sp in specs:
        f = C17.check_history(ca, sp)
        if f:
            raise core.ImplViolation(dict(kind="input", kernel="K-split-history", input=dict(sp, k="history"), failure=f))
    ctx.coverage["split_histories"] = len(specs)


def _check_split(a, res_obs):
    """independent reading: union of the split entries' port pairs = original, one port per split side"""
    want_s = acegen.port_set(a["sport"]) if a["sport"] is not None else None
    want_d = acegen.port_set(a["dport"]) if a["dport"] is not None else None

    def pset(items, ivs):
        s = set()
        for lo, hi in ivs[1]:
            s.update(range(lo, hi + 1))
        return s
    union = set()
    for o in res_obs:
        ss = pset(o[4], o[5]) if (a["sport"] is not None) else {0}
        ds = pset(o[6], o[7]) if (a["dport"] is not None) else {0}
        if a["sport"] is not None and a["sport"][0] in ("eq", "neq") and len(o[4]) != 1:
            return "a split entry lists several source ports"
        if a["dport"] is not None and a["dport"][0] in ("eq", "neq") and len(o[6]) != 1:
            return "a split entry lists several destination ports"
        if len(ss) * len(ds) > 4_000_000:
            return None     # too large to enumerate; covered by the theorem + correspondence
        union.update((x, y) for x in ss for y in ds)
    ws = want_s if want_s is not None else {0}
    wd = want_d if want_d is not None else {0}
    if len(ws) * len(wd) > 4_000_000:
        return None
    if union != {(x, y) for x in ws for y in wd}:
        return "the union of the split entries' (source port, destination port) sets differs from the original's"
    return None


def oracle(ctx, kernel, meta):
    if meta.get("k") == "history":
        from harness.props import C17
        return C17.oracle(ctx, kernel, meta)
    ca = core.impl_module()
    if meta["k"] != "ace":
        return None
    a = meta["abstract"]
    sp = {"text": meta["text"], "src_members": meta["members"][0], "dst_members": meta["members"][1]}
    try:
        o = acegen.build_impl(ca, "ios", sp)
        before = acegen.obs_ace(o)
        res = o.ungroup_ports()
        obs = [acegen.obs_ace(x) for x in res]
    except Exception as ex:  # noqa
        return {"what": f"ungroup_ports raised {type(ex).__name__}: {ex}"}
    for x in obs:
        if [x[0], x[1], x[2], x[3], x[8], x[9]] != [before[0], before[1], before[2], before[3], before[8], before[9]]:
            return {"what": "a split entry differs from the original in a field other than the ports "
                            "(action / protocol / addresses incl. group members / flags / logs)"}
    needs = any(a[s] is not None and a[s][0] in ("eq", "neq") and len(a[s][1]) > 1 for s in ("sport", "dport"))
    if not needs and not (len(res) == 1 and res[0] is o):
        return {"what": "an entry that needs no splitting was not left as it is"}
    a2 = dict(a, sport=tuple(a["sport"]) if a["sport"] else None, dport=tuple(a["dport"]) if a["dport"] else None)
    w = _check_split(a2, obs)
    if w:
        return {"what": w, "text": meta["text"], "neq_multi": multi_neq(a2)}
    return None


def search(ctx):
    return None


def _n5(ca):
    r = ca.Ace("permit tcp any neq 1 2 any").ungroup_ports()
    return [x.line for x in r] == ["permit tcp any neq 1 any", "permit tcp any neq 2 any"]


def known_lines(ctx):
    ca = core.impl_module()
    out = []
    for f in core.load_findings("C19"):
        if f["status"] == "known" and f["id"] == "N5":
            if _n5(ca):
                out.append(f"{f['id']}: {f['what']}")
            else:
                ctx.notes.append("known finding N5 no longer reproduces")
    return out


def matches_known(ctx, kernel, meta, failure):
    if failure.get("neq_multi") and "union" in failure.get("what", ""):
        return "N5"
    return None
