"""C09 - port/protocol names are pure spelling of their standard numbers."""
from __future__ import annotations

import itertools
import os
import random
import re

from harness import core
from harness.core import Case, coq_bool, coq_str, outcome

LEVEL = "proof"
MODEL_TARGETS = ["run/RunNames.vo"]
RULE = ("exhaustive: every (protocol spelling x platform spelling x version string) selection of PortName, every "
        "name of every table through Port and through the destination-port/option splitter, all 256 protocol "
        "numbers x 3 platforms x switch x has_port, all protocol names; numbers 1..65535: all table numbers +-1, "
        "boundaries and a seeded sample (quick) / all (thorough). A case is non-trivial when it involves a name "
        "(not a bare number) or an error outcome; distinct = distinct (kernel, input).")

PLATS = {"asa": "Asa", "ios": "Ios", "nxos": "Nxos"}
PLAT_SPELL = ["asa", "ios", "nxos", "", "cisco_ios", "cisco_nxos", "cnx", "cisco_asa"]
VERSIONS = ["", "0", "15", "15.2(02)SY", "15.0", "16", "16.09.06", "9.3(8)", "12.4", "150", "1.15", "17.3"]
PROTOS = {"tcp": "Tcp", "udp": "Udp", "6": "Tcp", "17": "Udp", "TCP": "Tcp"}


def _canon_plat(h, spelling):
    return h.init_platform(platform=spelling)


def _is15(h, version):
    return h.init_version(version=version).major == 15


def _ref_tables():
    src = open(os.path.join(core.COQ, "spec", "Reference.v")).read()
    out = {}
    for name in ("REF_TCP", "REF_UDP", "REF_PROTO"):
        body = src.split(f"Definition {name}")[1].split("]%N.")[0]
        out[name] = {m.group(1): int(m.group(2)) for m in re.finditer(r'\("([^"]+)",\s*(\d+)\)', body)}
    return out


def correspond(ctx):
    ca = core.impl_module()
    from cisco_acl import helpers as h, port_name as pn, protocol as pr, parsers
    rnd = random.Random(ctx.seed)
    cases = []
    nontrivial = set()

    def add(model, impl, meta, nt=True):
        cases.append(Case(model, impl, meta))
        if nt:
            nontrivial.add(repr(meta))

    # --- table selection logic, all spellings
    for ps, pls, ver in itertools.product(PROTOS, PLAT_SPELL, VERSIONS):
        plat = _canon_plat(h, pls)
        v15 = _is15(h, ver)
        sel = f"{PROTOS[ps]} {PLATS[plat]} {coq_bool(v15)}"
        o = pn.PortName(protocol=ps, platform=pls, version=ver)
        add(f"run_names {sel}", [[k, v] for k, v in o.names().items()],
            {"k": "names", "protocol": ps, "platform": pls, "version": ver})
        add(f"run_ports {sel}", [[k, v] for k, v in o.ports().items()],
            {"k": "ports", "protocol": ps, "platform": pls, "version": ver})
    add("run_all_known", list(pn.all_known_names()), {"k": "all_known_names"})
    add("run_protocols_any", [[k, v] for k, v in pr.PROTOCOLS_ANY.items()], {"k": "PROTOCOLS_ANY"})
    for plat, cp in PLATS.items():
        add(f"run_nr_to_protocol {cp}", [[k, v] for k, v in pr.NR_TO_PROTOCOL[plat].items()],
            {"k": "NR_TO_PROTOCOL", "platform": plat})
        add(f"run_proto_table {cp}", [[k, v] for k, v in pr.PROTOCOL_TO_NR[plat].items()],
            {"k": "PROTOCOL_TO_NR", "platform": plat})

    # --- every name through Port (parse, ports, render both switches), on every selection
    all_names = set()
    tables = {}
    for proto in ("tcp", "udp"):
        for plat in PLATS:
            for ver in ("0", "15"):
                v15 = ver == "15"
                names = pn.PortName(proto, plat, ver).names()
                tables[(proto, plat, v15)] = names
                all_names.update(names)
    foreign = sorted(all_names) + ["nosuchname", "eq", "any", "log", "0", "65536", "00080", "www "]
    for (proto, plat, v15), names in tables.items():
        sel = f"{PROTOS[proto]} {PLATS[plat]} {coq_bool(v15)}"
        ver = "15" if v15 else "0"
        for item in foreign:
            def parse(item=item):
                p = ca.Port(f"eq {item}", protocol=proto, platform=plat, version=ver)
                assert p.ports == p.items and len(p.items) == 1
                return p.items[0]
            add(f"run_port_parse {sel} {coq_str(item.strip())}", outcome(parse),
                {"k": "port_parse", "protocol": proto, "platform": plat, "version": ver, "item": item})
        # numbers
        nums = {1, 2, 65534, 65535, 99999}
        for n in names.values():
            nums.update({n - 1, n, n + 1})
        if ctx.tier == "quick":
            nums.update(rnd.sample(range(1, 65536), 40))
        for n in sorted(x for x in nums if x >= 0):
            for nr in (False, True):
                def render(n=n, nr=nr):
                    p = ca.Port(f"eq {n}", protocol=proto, platform=plat, version=ver, port_nr=nr)
                    line = p.line
                    assert line.startswith("eq ")
                    return line[3:]
                add(f"run_port_render {coq_bool(nr)} {sel} {n}", outcome(render),
                    {"k": "port_render", "protocol": proto, "platform": plat, "version": ver, "n": n, "port_nr": nr},
                    nt=(n in names.values()))
    # --- histories: a port built from a name (its table has been used), then moved to another platform:
    #     it must render like a fresh port of that platform, and that text must parse back to the number
    for (proto, plat, v15), names in tables.items():
        ver = "15" if v15 else "0"
        for name, n in sorted(names.items()):
            for plat2 in PLATS:
                if plat2 == plat:
                    continue
                def switch(name=name, n=n, plat2=plat2):
                    p = ca.Port(f"eq {name}", protocol=proto, platform=plat, version=ver)
                    _ = p.line
                    p.platform = plat2
                    line = p.line
                    assert line.startswith("eq ")
                    q = ca.Port(line, protocol=proto, platform=plat2, version=ver)
                    assert q.items == [n], (line, q.items)
                    return line[3:]
                add(f"run_port_render false {PROTOS[proto]} {PLATS[plat2]} {coq_bool(v15)} {n}", outcome(switch),
                    {"k": "port_switch", "protocol": proto, "platform": plat, "to": plat2, "version": ver, "name": name, "n": n})
    # --- the same for the protocol of a port: a named tcp port re-labelled udp (and back) renders with the
    #     other protocol's table
    for (proto, plat, v15), names in tables.items():
        ver = "15" if v15 else "0"
        other = "udp" if proto == "tcp" else "tcp"
        for name, n in sorted(names.items()):
            def pswitch_port(name=name, n=n, other=other):
                p = ca.Port(f"eq {name}", protocol=proto, platform=plat, version=ver)
                _ = p.line
                p.protocol = other
                line = p.line
                assert line.startswith("eq ")
                q = ca.Port(line, protocol=other, platform=plat, version=ver)
                assert q.items == [n], (line, q.items)
                return line[3:]
            add(f"run_port_render false {PROTOS[other]} {PLATS[plat]} {coq_bool(v15)} {n}", outcome(pswitch_port),
                {"k": "port_proto_switch", "protocol": proto, "to_protocol": other, "platform": plat, "version": ver,
                 "name": name, "n": n})
    # --- the version reaches the name tables through every entry point (acls / aces / Acl / AceGroup)
    for plat in ("ios", "nxos"):
        for ver, v15 in (("15.2(02)SY", True), ("16.9", False), ("0", False)):
            for proto in ("tcp", "udp"):
                names = pn.PortName(proto, plat, ver).names()
                nums = sorted(set(names.values()) | {135, 15001, 15002, 521})
                head = "ip access-list extended A" if plat == "ios" else "ip access-list A"
                body = [f"permit {proto} any any eq {n}" for n in nums]
                cfgtext = "\n".join([head] + ["  " + b for b in body]) + "\n"
                for entry in ("acls", "aces", "Acl", "AceGroup"):
                    def via(entry=entry, cfgtext=cfgtext, body=body, plat=plat, ver=ver):
                        if entry == "acls":
                            items = ca.acls(cfgtext, platform=plat, version=ver)[0].items
                        elif entry == "aces":
                            items = ca.aces("\n".join(body), platform=plat, version=ver)
                        elif entry == "Acl":
                            items = ca.Acl(cfgtext, platform=plat, version=ver).items
                        else:
                            items = ca.AceGroup("\n".join(body), platform=plat, version=ver).items
                        return [o.line.split()[-1] for o in items]
                    model = "VL [" + "; ".join(
                        f"run_port_render false {PROTOS[proto]} {PLATS[plat]} {coq_bool(v15)} {n}" for n in nums) + "]"
                    add(model, outcome(via), {"k": "entry_version", "entry": entry, "protocol": proto, "platform": plat,
                                              "version": ver, "numbers": nums})
    for plat, cp in PLATS.items():
        for n_, name in sorted(pr.NR_TO_PROTOCOL[plat].items()):
            for plat2, cp2 in PLATS.items():
                if plat2 == plat:
                    continue
                def pswitch(name=name, plat=plat, plat2=plat2):
                    o = ca.Protocol(name, platform=plat)
                    _ = o.line
                    o.platform = plat2
                    assert ca.Protocol(o.line, platform=plat2).number == o.number
                    return o.line
                add(f"run_proto_render {cp2} false false {n_}", outcome(pswitch),
                    {"k": "proto_switch", "platform": plat, "to": plat2, "name": name, "n": n_})
    # --- protocols: all numbers x platform x switch x has_port; all names; garbage
    for plat, cp in PLATS.items():
        for nr in (False, True):
            for hp in (False, True):
                for n in range(0, 256):
                    def prender(n=n, nr=nr, hp=hp):
                        return ca.Protocol(str(n), platform=plat, protocol_nr=nr, has_port=hp).line
                    add(f"run_proto_render {cp} {coq_bool(nr)} {coq_bool(hp)} {n}", outcome(prender),
                        {"k": "proto_render", "platform": plat, "n": n, "protocol_nr": nr, "has_port": hp},
                        nt=(n in pr.NR_TO_PROTOCOL[plat]))
    pnames = sorted(set(pr.PROTOCOLS_ANY) | {"", "256", "300", "0255", "foo", "TCP", "ip ", " 6", "1 2"})
    for plat in PLATS:
        for name in pnames:
            def pparse(name=name):
                return ca.Protocol(name, platform=plat).number
            add(f"run_proto_parse {coq_str(' '.join(name.split()))}", outcome(pparse),
                {"k": "proto_parse", "platform": plat, "line": name})
    # --- destination-port / option splitter on every name and mixtures
    ops = list(h.OPERATORS)
    vocab = sorted(all_names)
    opts = ["log", "ack", "syn", "log-input", "established", "dscp", "ef", "time-range", "X"]
    split_inputs = [[]]
    for nm in vocab:
        split_inputs.append(["eq", nm, "log"])
        split_inputs.append(["eq", "1", nm])
    for _ in range(300 if ctx.tier == "quick" else 3000):
        toks = [rnd.choice(ops + ["log", "ack", "permit"])]
        toks += [rnd.choice(vocab + [str(rnd.randint(0, 70000))]) for _ in range(rnd.randint(0, 4))]
        toks += [rnd.choice(opts + vocab) for _ in range(rnd.randint(0, 3))]
        split_inputs.append(toks)
    for toks in split_inputs:
        d = parsers._parse_dstport_option(" ".join(toks))
        add("run_split_dstport " + core.coq_list(coq_str(t) for t in toks),
            [d["dstport"].split(), d["option"].split()], {"k": "split", "tokens": toks})

    ctx.samples += [cases[0].meta, cases[len(cases) // 2].meta, cases[-1].meta]
    ctx.coverage["distinct_nontrivial"] = len(nontrivial)
    ctx.coverage["exhaustive"] = True
    core.eval_cases(ctx, "K-tables", ["gen.Tables", "model.Cfg", "model.Names", "run.RunNames"], cases)

    # --- implementation-side exhaustive sweep of the number space (thorough), using the impl's own
    #     ports() dict which was compared with the model's table above
    if ctx.tier == "thorough":
        n_eval = 0
        for (proto, plat, v15) in tables:
            ver = "15" if v15 else "0"
            pd = pn.PortName(proto, plat, ver).ports()
            for n in range(1, 65536):
                want = pd.get(n) or str(n)
                got = ca.Port(f"eq {n}", protocol=proto, platform=plat, version=ver).line
                n_eval += 1
                if got != f"eq {want}":
                    raise core.ImplViolation(dict(kind="input", kernel="K-tables", input={
                        "k": "port_render", "protocol": proto, "platform": plat, "version": ver, "n": n,
                        "port_nr": False}, failure={"what": f"Port('eq {n}').line = {got!r}, expected 'eq {want}'"}))
        ctx.count("evaluations", n_eval)
        ctx.coverage["impl_side_number_sweep"] = n_eval


# ------------------------------------------------------------------ oracle (independent reading of C09)
def oracle(ctx, kernel, meta):
    """Evaluate C09 on the implementation for one input; None = holds."""
    ca = core.impl_module()
    from cisco_acl import port_name as pn, protocol as pr
    ref = _ref_tables()
    k = meta.get("k")
    if k in ("names", "ports", "port_parse", "port_render"):
        proto = {"6": "tcp", "17": "udp"}.get(meta["protocol"].lower(), meta["protocol"].lower())
        rt = ref["REF_TCP"] if proto == "tcp" else ref["REF_UDP"]
        names = pn.PortName(meta["protocol"], meta["platform"], meta["version"]).names()
        for nm, n in names.items():
            if rt.get(nm) != n:
                return {"what": f"{proto} name {nm!r} denotes {n}, standard number is {rt.get(nm)}", "input": meta}
        return _closed_ports(ca, pn, meta["protocol"], meta["platform"], meta["version"])
    if k == "port_switch":
        try:
            p = ca.Port(f"eq {meta['name']}", protocol=meta["protocol"], platform=meta["platform"], version=meta["version"])
            _ = p.line
            p.platform = meta["to"]
            line = p.line
            back = ca.Port(line, protocol=meta["protocol"], platform=meta["to"], version=meta["version"]).items
        except Exception as ex:  # noqa
            return {"what": f"port {meta['name']!r} ({meta['n']}) moved {meta['platform']}->{meta['to']}: its text is not "
                            f"accepted by the {meta['to']} parser: {type(ex).__name__}: {str(ex)[:120]}"}
        if back != [meta["n"]]:
            return {"what": f"port {meta['name']!r} moved {meta['platform']}->{meta['to']} renders {line!r} = {back}, was {meta['n']}"}
        return None
    if k == "port_proto_switch":
        try:
            p = ca.Port(f"eq {meta['name']}", protocol=meta["protocol"], platform=meta["platform"], version=meta["version"])
            _ = p.line
            p.protocol = meta["to_protocol"]
            back = ca.Port(p.line, protocol=meta["to_protocol"], platform=meta["platform"], version=meta["version"]).items
        except Exception as ex:  # noqa
            return {"what": f"port {meta['name']!r} ({meta['n']}) re-labelled {meta['protocol']}->{meta['to_protocol']}: "
                            f"{type(ex).__name__}: {str(ex)[:120]}"}
        return None if back == [meta["n"]] else {"what": f"port {meta['name']!r} re-labelled {meta['to_protocol']} denotes {back}, was {meta['n']}"}
    if k == "entry_version":
        plat, ver, proto = meta["platform"], meta["version"], meta["protocol"]
        head = "ip access-list extended A" if plat == "ios" else "ip access-list A"
        body = [f"permit {proto} any any eq {n}" for n in meta["numbers"]]
        try:
            if meta["entry"] == "acls":
                items = ca.acls("\n".join([head] + ["  " + b for b in body]) + "\n", platform=plat, version=ver)[0].items
            elif meta["entry"] == "aces":
                items = ca.aces("\n".join(body), platform=plat, version=ver)
            elif meta["entry"] == "Acl":
                items = ca.Acl("\n".join([head] + body), platform=plat, version=ver).items
            else:
                items = ca.AceGroup("\n".join(body), platform=plat, version=ver).items
            for o, n in zip(items, meta["numbers"]):
                back = ca.Ace(o.line, platform=plat, version=ver).dstport.items
                if back != [n]:
                    return {"what": f"{meta['entry']}(version={ver!r}): port {n} rendered {o.line!r} = {back}"}
        except Exception as ex:  # noqa
            return {"what": f"{meta['entry']}(platform={plat!r}, version={ver!r}) renders a {proto} port name that the parser "
                            f"of that platform/version rejects: {type(ex).__name__}: {str(ex)[:140]}"}
        return None
    if k == "proto_switch":
        try:
            o = ca.Protocol(meta["name"], platform=meta["platform"])
            _ = o.line
            o.platform = meta["to"]
            back = ca.Protocol(o.line, platform=meta["to"]).number
        except Exception as ex:  # noqa
            return {"what": f"protocol {meta['name']!r} moved {meta['platform']}->{meta['to']}: {type(ex).__name__}: {ex}"}
        return None if back == meta["n"] else {"what": f"protocol {meta['name']!r} moved to {meta['to']} denotes {back}, was {meta['n']}"}
    if k == "all_known_names" or k == "split":
        return _vocab(ca, pn)
    if k in ("PROTOCOLS_ANY", "NR_TO_PROTOCOL", "PROTOCOL_TO_NR", "proto_render", "proto_parse"):
        return _protocols(ca, pr, ref)
    return None


def _closed_ports(ca, pn, proto, plat, ver, numbers=None):
    names = pn.PortName(proto, plat, ver).names()
    nums = set(names.values()) | {1, 65535}
    for n in (numbers or sorted(nums)):
        for nr in (False, True):
            try:
                line = ca.Port(f"eq {n}", protocol=proto, platform=plat, version=ver, port_nr=nr).line
                back = ca.Port(line, protocol=proto, platform=plat, version=ver).items
            except Exception as ex:  # noqa
                return {"what": f"rendering of port {n} ({proto},{plat},{ver},port_nr={nr}) is not accepted back: "
                                f"{type(ex).__name__}: {ex}"}
            if back != [n]:
                return {"what": f"port {n} renders as {line!r} which parses to {back}"}
    for nm, n in names.items():
        try:
            got = ca.Port(f"eq {nm}", protocol=proto, platform=plat, version=ver).ports
        except Exception as ex:  # noqa
            return {"what": f"name {nm!r} of the {plat} table rejected: {ex}"}
        if got != [n]:
            return {"what": f"name {nm!r} parsed as {got}, table says {n}"}
    return None


def _vocab(ca, pn):
    from cisco_acl import helpers as h, option
    kw = set(h.OPERATORS) | {"any", "host", "object-group", "addrgroup"} | set(option.LOGS)
    for proto in ("tcp", "udp"):
        for plat in PLATS:
            if plat == "asa":
                continue
            for ver in ("0", "15"):
                for nm, n in pn.PortName(proto, plat, ver).names().items():
                    if nm in kw or nm.isdigit():
                        return {"what": f"name {nm!r} collides with a keyword/number"}
                    line = f"permit {proto} any any eq {nm} log"
                    try:
                        a = ca.Ace(line, platform=plat, version=ver)
                        ok = a.dstport.items == [n] and a.option.line == "log"
                        got = (a.dstport.line, a.option.line)
                    except Exception as ex:  # noqa
                        ok, got = False, f"{type(ex).__name__}: {ex}"
                    if not ok:
                        return {"what": f"{line!r} on {plat}/{ver}: destination port name not recognised as a port: {got}",
                                "line": line, "platform": plat, "version": ver}
    return None


def _protocols(ca, pr, ref):
    for plat in PLATS:
        for nm, n in pr.PROTOCOL_TO_NR[plat].items():
            if ref["REF_PROTO"].get(nm) != n:
                return {"what": f"protocol name {nm!r} denotes {n} on {plat}, standard is {ref['REF_PROTO'].get(nm)}"}
            try:
                if ca.Protocol(nm, platform=plat).number != n:
                    return {"what": f"Protocol({nm!r}).number != {n} on {plat}"}
            except Exception as ex:  # noqa
                return {"what": f"Protocol({nm!r}) rejected on {plat}: {ex}"}
        for n in range(256):
            for nr in (False, True):
                for hp in (False, True):
                    try:
                        line = ca.Protocol(str(n), platform=plat, protocol_nr=nr, has_port=hp).line
                        back = ca.Protocol(line, platform=plat).number
                    except Exception as ex:  # noqa
                        return {"what": f"protocol {n} on {plat}: {type(ex).__name__}: {ex}"}
                    if back != n:
                        return {"what": f"protocol {n} on {plat} (protocol_nr={nr}, has_port={hp}) renders {line!r} -> {back}"}
    return None


def search(ctx):
    """Nothing disagreed on a concrete input (e.g. a table theorem broke): enumerate the finite space."""
    ca = core.impl_module()
    from cisco_acl import port_name as pn, protocol as pr
    ref = _ref_tables()
    for proto in ("tcp", "udp"):
        for plat in PLATS:
            for ver in ("0", "15"):
                meta = {"k": "names", "protocol": proto, "platform": plat, "version": ver}
                f = oracle(ctx, "K-tables", meta)
                if f:
                    return dict(kind="input", kernel="K-tables", input=meta, failure=f)
    f = _vocab(ca, pn) or _protocols(ca, pr, ref)
    if f:
        return dict(kind="input", kernel="K-tables", input={"k": "all_known_names"}, failure=f)
    return None


def known_lines(ctx):
    return []


def matches_known(ctx, kernel, meta, failure):
    return None
