"""C13 - address containment answers equal true set containment."""
from __future__ import annotations

import random

from harness import core, addrgen as ag
from harness.core import Case, coq_list, coq_str, outcome

LEVEL = "proof"
MODEL_TARGETS = ["run/RunAddr.vo"]
RULE = ("ordered pairs of abstract address sets (any / host / prefix / non-contiguous wildcard and a related one: "
        "same, superset, subset, sibling, random), each spelled in an accepted spelling for the platform (any, host, "
        "A/len with and without host bits, A W with bits under the wildcard; IOS group members as subnet masks); "
        "Address.subnet_of, AddressAg.subnet_of, member in member, member in AddrGroup (1..4 members), "
        "subnet_of with address groups of 0..4 members on either side. Non-trivial = the answer is True or the "
        "pair is related by construction; distinct = distinct text pair.")

PL = {"ios": "Ios", "nxos": "Nxos"}


def correspond(ctx):
    ca = core.impl_module()
    rnd = random.Random(ctx.seed)
    n = 700 if ctx.tier == "quick" else 12000
    cases, nontrivial = [], set()
    positives = 0

    def add(model, impl, meta):
        nonlocal positives
        cases.append(Case(model, impl, meta))
        if impl is True or meta.get("related"):
            nontrivial.add(repr((meta.get("a"), meta.get("b"), meta.get("items"), meta["k"], meta["platform"])))
        positives += impl is True

    # deterministic corpus: every spelling of "all of IPv4" (incl. the zero-length prefix with any base, which on
    # IOS is not typed 'any') and a few proper subsets, all ordered pairs, both platforms
    ALLS = [("SAny", "any", 0, ag.ALL), (f"(SWild 0 {ag.ALL})", "0.0.0.0 255.255.255.255", 0, ag.ALL),
            (f"(SWild 167837955 {ag.ALL})", "10.1.2.3 255.255.255.255", 0, ag.ALL),
            ("(SPrefix 0 0%nat)", "0.0.0.0/0", 0, ag.ALL), ("(SPrefix 167837955 0%nat)", "10.1.2.3/0", 0, ag.ALL),
            ("(SPrefix 167772160 8%nat)", "10.0.0.0/8", 167772160, ag.hostmask(8)),
            ("(SHost 167837955)", "host 10.1.2.3", 167837955, 0),
            (f"(SWild 0 {ag.ALL - 1})", "0.0.0.0 255.255.255.254", 0, ag.ALL - 1)]
    for plat in ("ios", "nxos"):
        for (c1, t1, b1_, m1_) in ALLS:
            for (c2, t2, b2_, m2_) in ALLS:
                add(f"run_subnet_of {PL[plat]} 16%Z {c1} {c2}",
                    outcome(lambda: ca.Address(t1, platform=plat).subnet_of(ca.Address(t2, platform=plat))),
                    {"k": "subnet_of", "platform": plat, "a": t1, "b": t2, "A": [b1_, m1_], "B": [b2_, m2_], "related": True})
    for i in range(n):
        plat = rnd.choice(["ios", "nxos"])
        cp = PL[plat]
        k1, b1, m1 = ag.rand_abstract(rnd)
        rel = rnd.random() < 0.75
        k2, b2, m2 = ag.related(rnd, k1, b1, m1) if rel else ag.rand_abstract(rnd)
        if bin(m1).count("1") > 20 and m1 != ag.ALL and not ag.is_contig(m1):
            continue
        mode = rnd.choice(["addr", "addr", "ag_subnet", "ag_in", "group_in", "addr_group"])
        if mode == "addr":
            (ca_, ta), (cb, tb) = ag.spell(rnd, plat, b1, m1), ag.spell(rnd, plat, b2, m2)
            add(f"run_subnet_of {cp} 16%Z {ca_} {cb}",
                outcome(lambda: ca.Address(ta, platform=plat).subnet_of(ca.Address(tb, platform=plat))),
                {"k": "subnet_of", "platform": plat, "a": ta, "b": tb, "A": [b1, m1], "B": [b2, m2], "related": rel})
        elif mode in ("ag_subnet", "ag_in"):
            if not ag.is_contig(m1):
                m1 = ag.hostmask(rnd.randint(8, 32))
            if not ag.is_contig(m2):
                m2 = ag.hostmask(rnd.randint(8, 32))
            if plat == "nxos" and rnd.random() < 0.2:
                m2 = ag.rand_nc_mask(rnd, 2)
            (ca_, ta), (cb, tb) = ag.spell_ag(rnd, plat, b1, m1), ag.spell_ag(rnd, plat, b2, m2)
            if mode == "ag_subnet":
                add(f"run_ag_subnet_of {cp} 16%Z {ca_} {cb}",
                    outcome(lambda: ca.AddressAg(ta, platform=plat).subnet_of(ca.AddressAg(tb, platform=plat))),
                    {"k": "ag_subnet_of", "platform": plat, "a": ta, "b": tb, "A": [b1, m1], "B": [b2, m2], "related": rel})
            else:
                add(f"run_ag_contains {cp} 16%Z {ca_} {cb}",
                    outcome(lambda: ca.AddressAg(ta, platform=plat) in ca.AddressAg(tb, platform=plat)),
                    {"k": "ag_in", "platform": plat, "a": ta, "b": tb, "A": [b1, m1], "B": [b2, m2], "related": rel})
        elif mode == "group_in":
            m1 = m1 if ag.is_contig(m1) else ag.hostmask(rnd.randint(8, 32))
            ca_, ta = ag.spell_ag(rnd, plat, b1, m1)
            members, abstract = [], []
            for _ in range(rnd.randint(1, 4)):
                kk, bb, mm = ag.related(rnd, k1, b1, m1) if rnd.random() < 0.5 else ag.rand_abstract(rnd, ("host", "prefix"))
                if not ag.is_contig(mm) or mm == ag.ALL:
                    mm = ag.hostmask(rnd.randint(8, 32))
                members.append(ag.spell_ag(rnd, plat, bb, mm))
                abstract.append([bb, mm])
            add(f"run_group_contains {cp} 16%Z {ca_} {coq_list(c for c, _ in members)}",
                outcome(lambda: ca.AddressAg(ta, platform=plat) in
                        ca.AddrGroup(name="G", items=[t for _, t in members], platform=plat)),
                {"k": "group_in", "platform": plat, "a": ta, "items": [t for _, t in members],
                 "A": [b1, m1], "M": abstract, "related": True})
        else:  # ACE addresses with groups
            def side(b, m):
                if rnd.random() < 0.6:
                    mem, abst = [], []
                    for _ in range(rnd.randint(0, 4)):
                        kk, bb, mm = ag.related(rnd, "x", b, m) if rnd.random() < 0.6 else ag.rand_abstract(rnd)
                        if bin(mm).count("1") > 12 and not ag.is_contig(mm):
                            mm = ag.hostmask(24)
                        mem.append(ag.spell(rnd, plat, bb, mm))
                        abst.append([bb, mm])
                    kw = "object-group" if plat == "ios" else "addrgroup"
                    return ('(SGroup "G" [])', f"{kw} G"), mem, abst
                return ag.spell(rnd, plat, b, m), [], [[b, m]]
            (sa, ta), ma, aa = side(b1, m1)
            (sb, tb), mb, ab = side(b2, m2)

            def mk(t, mem):
                if mem or t.split()[0] in ("object-group", "addrgroup"):
                    return ca.Address(t, platform=plat, items=[x for _, x in mem])
                return ca.Address(t, platform=plat)
            hist = rnd.random() < 0.5

            def run_g():
                if not hist:
                    return mk(ta, ma).subnet_of(mk(tb, mb))
                # history: query with other members first, then reassign / append the members, query again
                A0, B0 = mk(ta, ma[:1]), mk(tb, mb[1:])
                A0.subnet_of(B0)
                B0.subnet_of(A0)
                for obj, mem in ((A0, ma), (B0, mb)):
                    if obj.type == "addrgroup":
                        if rnd.random() < 0.5:
                            obj.items = [x for _, x in mem]
                        else:
                            obj.items = []
                            for _, x in mem:
                                obj.items.append(ca.Address(x, platform=plat))
                return A0.subnet_of(B0)
            add(f"run_subnet_of_g {cp} 16%Z {sa} {sb} {coq_list(c for c, _ in ma)} {coq_list(c for c, _ in mb)}",
                outcome(run_g),
                {"k": "subnet_of_g", "platform": plat, "a": ta, "b": tb, "ma": [t for _, t in ma],
                 "mb": [t for _, t in mb], "A": aa, "B": ab, "related": rel, "history": hist})
    ctx.samples += [cases[0].meta, cases[len(cases) // 3].meta, cases[-1].meta]
    ctx.coverage["distinct_nontrivial"] = len(nontrivial)
    from collections import Counter
    ctx.coverage["input_distribution"] = {"by_kind": dict(Counter(c.meta["k"] for c in cases)),
                                          "answers_true": positives,
                                          "errors": sum(isinstance(c.impl, core.Err) for c in cases)}
    core.eval_cases(ctx, "K-addr", ["gen.Tables", "model.Cfg", "model.Wildcard", "model.Addr", "run.RunAddr"],
                    cases, chunk=120)


def _union_subset(As, Bs):
    """every set of As inside the union of Bs, decided exactly for wildcard sets by bit reasoning on a sample
    plus the exact single-set test when Bs is a single set."""
    if not As or not Bs:
        return None
    if len(Bs) == 1:
        return all(ag.subset(a[0], a[1], Bs[0][0], Bs[0][1]) for a in As)
    return None


def oracle(ctx, kernel, meta):
    ca = core.impl_module()
    plat = meta["platform"]
    k = meta["k"]
    try:
        if k == "subnet_of":
            got = ca.Address(meta["a"], platform=plat).subnet_of(ca.Address(meta["b"], platform=plat))
            want = ag.subset(*meta["A"], *meta["B"])
        elif k == "ag_subnet_of":
            got = ca.AddressAg(meta["a"], platform=plat).subnet_of(ca.AddressAg(meta["b"], platform=plat))
            want = ag.subset(*meta["A"], *meta["B"])
        elif k == "ag_in":
            got = ca.AddressAg(meta["a"], platform=plat) in ca.AddressAg(meta["b"], platform=plat)
            want = ag.subset(*meta["A"], *meta["B"])
        elif k == "group_in":
            got = ca.AddressAg(meta["a"], platform=plat) in ca.AddrGroup(name="G", items=meta["items"], platform=plat)
            want = any(ag.subset(*meta["A"], *m) for m in meta["M"])
        elif k == "subnet_of_g":
            def mk(t, mem):
                if t.split()[0] in ("object-group", "addrgroup"):
                    return ca.Address(t, platform=plat, items=list(mem))
                return ca.Address(t, platform=plat)
            if meta.get("history"):
                A0, B0 = mk(meta["a"], meta["ma"][:1]), mk(meta["b"], meta["mb"][1:])
                A0.subnet_of(B0)
                B0.subnet_of(A0)
                if A0.type == "addrgroup":
                    A0.items = list(meta["ma"])
                if B0.type == "addrgroup":
                    B0.items = list(meta["mb"])
                got = A0.subnet_of(B0)
            else:
                got = mk(meta["a"], meta["ma"]).subnet_of(mk(meta["b"], meta["mb"]))
            if got is True:  # positive answer must imply containment: every bottom set inside the union of tops
                for a in meta["A"]:
                    # exact test: a is inside the union iff no address of a escapes; sample corner addresses
                    rnd = random.Random(1)
                    for _ in range(200):
                        x = (a[0] & ~a[1] & ag.ALL) | (rnd.getrandbits(32) & a[1])
                        if not any(ag.in_set(x, *b) for b in meta["B"]):
                            return {"what": f"{meta['a']} (members {meta['ma']}) reported as subnet of {meta['b']} "
                                            f"(members {meta['mb']}) but address {ag.ip(x)} is not covered"}
            return None
        else:
            return None
    except Exception:  # noqa  (errors are outside the property's quantifier: valid addresses only)
        return None
    if got != want:
        return {"what": f"{k}: {meta['a']!r} vs {meta.get('b', meta.get('items'))!r} on {plat}: "
                        f"library says {got}, set containment is {want}"}
    return None


def search(ctx):
    rnd = random.Random(ctx.seed + 3)
    for _ in range(3000):
        plat = rnd.choice(["ios", "nxos"])
        k1, b1, m1 = ag.rand_abstract(rnd)
        k2, b2, m2 = ag.related(rnd, k1, b1, m1)
        if bin(m1).count("1") > 16 and not ag.is_contig(m1):
            continue
        (_, ta), (_, tb) = ag.spell(rnd, plat, b1, m1), ag.spell(rnd, plat, b2, m2)
        meta = {"k": "subnet_of", "platform": plat, "a": ta, "b": tb, "A": [b1, m1], "B": [b2, m2]}
        f = oracle(ctx, "K-addr", meta)
        if f:
            return dict(kind="input", kernel="K-addr", input=meta, failure=f)
    return None


def known_lines(ctx):
    return []


def matches_known(ctx, kernel, meta, failure):
    return None
