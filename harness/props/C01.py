"""C01 - parsing an ACE keeps its meaning (fields and re-rendered text)."""
from __future__ import annotations

from harness import core, acegen, cisco_reader as cr
from harness.kernels import acetext

LEVEL = "proof"
MODEL_TARGETS = acetext.TARGETS
RULE = ("valid ACE lines spelled from abstract entries: 2 actions x protocols (names and numbers) x address forms "
        "(any / all-ones wildcard, host / /32 / zero wildcard, prefix with host bits, wildcard with base bits under "
        "the mask, non-contiguous wildcards) x 5 port operators with names or numbers x flag/log tokens x sequence "
        "prefix (incl. 4294967295) x whitespace variants (tabs, runs, leading/trailing), on ios and nxos, versions "
        "0/15/16/9, all 4 settings of port_nr/protocol_nr; plus a malformed stream (dropped/duplicated/swapped/glued "
        "tokens, junk tokens, truncation) for the model correspondence. Non-trivial = distinct text.")


def correspond(ctx):
    n = 600 if ctx.tier == "quick" else 12000
    specs = acetext.gen_cases(ctx, n, n // 2)
    cases = acetext.run(ctx, specs)
    ctx.coverage["distinct_nontrivial"] = len({c.meta["text"] for c in cases})
    ctx.samples += [c.meta["text"] for c in cases[:2] + cases[-2:]]
    ctx.coverage["input_distribution"] = {
        "valid": n, "malformed": n // 2,
        "malformed_accepted": sum(1 for c in cases if not c.meta["valid"] and not isinstance(c.impl, core.Err)),
        "valid_rejected": sum(1 for c in cases if c.meta["valid"] and isinstance(c.impl, core.Err))}
    # the implementation against the independent reading, on every valid line (cheap)
    for c in cases:
        if c.meta["valid"]:
            f = oracle(ctx, "K-ace-text", c.meta)
            if f:
                raise core.ImplViolation(dict(kind="input", kernel="K-ace-text", input=c.meta, failure=f))


def oracle(ctx, kernel, meta):
    ca = core.impl_module()
    a = meta.get("abstract")
    if not a:
        return None
    plat = meta["platform"]
    kw = dict(platform=plat, version=meta["version"], port_nr=meta["port_nr"], protocol_nr=meta["protocol_nr"])
    try:
        o = ca.Ace(meta["text"], **kw)
    except Exception as ex:  # noqa
        return {"what": f"valid line rejected: {type(ex).__name__}: {ex}"}
    # 1. fields = Cisco meaning of the text
    if (o.action == "permit") != a["permit"] or o.protocol.number != a["proto"] or o.sequence != meta["seq"]:
        return {"what": f"action/protocol/sequence differ: {o.action} {o.protocol.number} {o.sequence}"}
    for f, ad in (("src", o.srcaddr), ("dst", o.dstaddr)):
        ob = acegen.obs_addr(ad)
        if a[f][0] == "group":
            if ob[0] != "addrgroup" or ob[1] != a[f][1]:
                return {"what": f"{f} is the address group {a[f][1]!r} in the text, the object has {ad.line!r}"}
            continue
        b, m = a[f][1], a[f][2]
        if ob[0] == "addrgroup" or ob[2] != m or ob[1] != (b & ~m & acegen.ag.ALL):
            return {"what": f"{f} address set differs from the text: {ad.line!r}"}
        nets = ad.ipnets()
        if sum(n.num_addresses for n in nets) != 2 ** bin(m).count("1"):
            return {"what": f"{f} networks do not cover the address set"}
    for f, po in (("sport", o.srcport), ("dport", o.dstport)):
        want = cr.port_set(None if a[f] is None else (a[f][0], list(a[f][1])))
        got = set(po.ports) if po.operator else None
        if got != want:
            return {"what": f"{f}: port set differs from the Cisco meaning of {a[f]}"}
    opt_toks = [t for op in a.get("opts", []) for t in op]
    if set(o.option.flags) != set(a["flags"]) | set(opt_toks) or list(o.option.logs) != list(a["logs"]):
        return {"what": f"flag/log tokens differ: {o.option.flags} {o.option.logs}"}
    if opt_toks and [t for t in o.option.line.split() if t in opt_toks] != opt_toks:
        return {"what": f"keyword/value options were re-ordered: {o.option.line!r}, text had {' '.join(opt_toks)!r}"}
    # 2. the rendered line, read independently, matches the same packets with the same action
    try:
        r = cr.read_ace(o.line, plat)
    except cr.ReadError as ex:
        return {"what": f"rendered line {o.line!r} is not valid {plat} syntax for an independent reader: {ex}"}
    d = cr.same_packets(r, a)
    if d or r["seq"] != meta["seq"]:
        return {"what": f"rendered line {o.line!r} denotes other packets ({d or 'sequence'}) than the input"}
    return None


def search(ctx):
    specs = acetext.gen_cases(ctx, 800, 0, salt=5)
    for s in specs:
        meta = {k: s[k] for k in ("text", "platform", "version", "port_nr", "protocol_nr", "abstract", "seq", "valid")}
        f = oracle(ctx, "K-ace-text", meta)
        if f:
            return dict(kind="input", kernel="K-ace-text", input=meta, failure=f)
    return None


def known_lines(ctx):
    return []


def matches_known(ctx, kernel, meta, failure):
    return None
