"""C07 - config-level extraction returns exactly the ACLs, bindings and group members."""
from __future__ import annotations

import random

from harness import core, acegen, addrgen as ag
from harness.core import Case, coq_list, coq_str, outcome
from harness.kernels import acetext

LEVEL = "proof"
MODEL_TARGETS = ["run/RunConfig.vo"]
RULE = ("configurations assembled from a random number and order of sections: 0..4 access lists (names, IOS types, "
        "repeated sections of the same list), 0..3 address groups (IOS subnet masks / NX-OS prefixes, hosts), 0..4 "
        "interfaces with 0..3 'ip access-group NAME in|out' bindings (several lists per interface, repeated interface "
        "sections, interfaces without settings), noise sections, comment lines anywhere, indentation 1..8, ACEs that "
        "reference defined / undefined groups, name filters. Non-trivial = at least one binding or group reference; "
        "distinct = distinct configuration text.")
PL = {"ios": "Ios", "nxos": "Nxos"}


def gen_config(rnd, ca, plat):
    """-> (text, ast) where ast records the expected extraction"""
    indent = " " * rnd.choice([1, 2, 2, 3, 4, 8])
    acl_names = rnd.sample(["A1", "ACL-IN", "ACL_OUT", "B2", "mgmt"], rnd.randint(0, 4))
    grp_names = rnd.sample(["G1", "SERVERS", "NET-A"], rnd.randint(0, 3))
    groups = {}
    for g in grp_names:
        mem = []
        for _ in range(rnd.randint(1, 4)):
            _, b, m = ag.rand_abstract(rnd, ("host", "prefix", "prefix"))
            mem.append((b & ~m & ag.ALL, m))
        groups[g] = mem
    acls = {}
    types = {}
    for n in acl_names:
        types[n] = rnd.choice(["extended", "extended", "extended"])
        acls[n] = []
    sections = []

    def acl_section(n):
        lines = []
        for _ in range(rnd.randint(1, 4)):
            r = rnd.random()
            if r < 0.2:
                lines.append("remark " + rnd.choice(["text", "= C-1, x", "web servers"]))
            else:
                a = acegen.rand_ace(rnd, plat, groups=False)
                toks = acetext.valid_text(rnd, ca, plat, "0", a, None)
                if rnd.random() < 0.35 and (grp_names or True):
                    g = rnd.choice(grp_names + ["UNDEFINED"])
                    kw = "object-group" if plat == "ios" else "addrgroup"
                    act = toks[0]
                    toks = [act, "ip", kw, g, "any"] if rnd.random() < 0.6 else [act, "ip", "any", kw, g]
                    if rnd.random() < 0.15 and g != "UNDEFINED":
                        toks = [act, "ip", kw, g, kw, g]
                lines.append(" ".join(toks))
        if rnd.random() < 0.15:      # entries longer than 100 characters are entries like any other
            lines.insert(rnd.randint(0, len(lines)), "remark " + "long text " * 12 + "end")
        if rnd.random() < 0.15:
            lines.insert(rnd.randint(0, len(lines)),
                         "permit tcp 100.100.100.0 0.0.0.255 range 10000 20000 200.200.200.0 0.0.0.255 range 30000 40000 "
                         "ack fin psh rst syn urg log-input" if plat == "ios" else
                         "permit tcp 100.100.100.0 0.0.0.255 range 10000 20000 200.200.200.0 0.0.0.255 range 30000 40000 "
                         "ack fin psh rst syn urg log")
        acls[n] += lines
        head = f"ip access-list {types[n]} {n}" if plat == "ios" else f"ip access-list {n}"
        return [head] + with_comments([indent + l for l in lines])

    def with_comments(body):
        """comment lines may stand anywhere, also between the lines of one section"""
        out_ = []
        for l in body:
            if rnd.random() < 0.12:
                # comment lines start in column 0 (an indented "!" is a body line for this parser: in an address
                # group it is refused like any other non-address, which is C12's concern, not a comment)
                out_.append(rnd.choice(["!", "! note", "!" + indent + "x", "!permit ip any any"]))
            out_.append(l)
        return out_

    for n in acl_names:
        sections.append(("acl", acl_section(n)))
        if rnd.random() < 0.2:
            sections.append(("acl", acl_section(n)))      # the same list again: entries are appended
    for g in grp_names:
        head = f"object-group network {g}" if plat == "ios" else f"object-group ip address {g}"
        lines = []
        for (b, m) in groups[g]:
            lines.append(ag.spell_ag(rnd, plat, b, m)[1])
        sections.append(("grp", [head] + with_comments([indent + l for l in lines])))
    binds = {n: {"in": set(), "out": set()} for n in acl_names}
    for i in range(rnd.randint(0, 4)):
        ifn = f"interface Ethernet1/{i}"
        body = []
        for _ in range(rnd.randint(0, 3)):
            r = rnd.random()
            if r < 0.7:
                n = rnd.choice(acl_names + ["OTHER"])
                d = rnd.choice(["in", "out"])
                body.append(f"ip access-group {n} {d}")
                if n in binds:
                    binds[n][d].add(ifn)
            else:
                body.append(rnd.choice(["description uplink", "no shutdown", "ip address 10.0.0.1 255.255.255.0"]))
        sections.append(("if", [ifn] + with_comments([indent + l for l in body])))
        if rnd.random() < 0.3:     # the same interface again: its settings accumulate
            n = rnd.choice(acl_names + ["OTHER"])
            d = rnd.choice(["in", "out"])
            if n in binds:
                binds[n][d].add(ifn)
            sections.append(("if", [ifn, indent + f"ip access-group {n} {d}"]))
    for _ in range(rnd.randint(0, 3)):
        sections.append(("noise", rnd.choice([
            ["hostname R1"], ["router bgp 65000", indent + "neighbor 10.0.0.2 remote-as 65001"],
            ["line vty 0 4", indent + "transport input ssh"], ["vlan 10", indent + "name users"],
            ["ip route 0.0.0.0 0.0.0.0 10.0.0.254"]])))
    rnd.shuffle(sections)
    out = []
    for _, sec in sections:
        if rnd.random() < 0.3:
            out.append("!")
        if rnd.random() < 0.1:
            out.append("! comment " + rnd.choice(["ip access-list extended X", "x"]))
        out += sec
    # expected ACL order = order of first occurrence
    order = []
    for kind, sec in sections:
        if kind == "acl":
            n = sec[0].split()[-1]
            if n not in order:
                order.append(n)
    # expected bodies follow the section order in the text
    bodies = {n: [] for n in acl_names}
    for kind, sec in sections:
        if kind == "acl":
            bodies[sec[0].split()[-1]] += [l.strip() for l in sec[1:] if not l.strip().startswith("!")]
    ast = {"order": order, "bodies": bodies, "types": types, "groups": {g: [list(x) for x in v] for g, v in groups.items()},
           "binds": {n: {d: sorted(v) for d, v in b.items()} for n, b in binds.items()}}
    # line ends: mostly "\n"; also "\r\n" throughout, or any of the ASCII separators of str.splitlines per line,
    # with or without a terminator after the last line
    style = rnd.random()
    if style < 0.7:
        return "\n".join(out) + "\n", ast
    if style < 0.85:
        return "\r\n".join(out) + rnd.choice(["\r\n", ""]), ast
    text = "".join(l + rnd.choice(["\n", "\n", "\r\n", "\r", "\x0b", "\x0c", "\x1c", "\x1d", "\x1e"]) for l in out[:-1])
    return text + (out[-1] if out else "") + rnd.choice(["", "\n"]), ast


def correspond(ctx):
    ca = core.impl_module()
    from cisco_acl.config_parser import ConfigParser
    rnd = random.Random(ctx.seed)
    n = 300 if ctx.tier == "quick" else 6000
    cases, nontrivial = [], set()
    metas = []
    for _ in range(n):
        plat = rnd.choice(["ios", "nxos"])
        text, ast = gen_config(rnd, ca, plat)
        names = None
        if rnd.random() < 0.25 and ast["order"]:
            names = rnd.sample(ast["order"] + ["NOPE"], rnd.randint(0, min(2, len(ast["order"]))))
        meta = {"k": "config", "platform": plat, "text": text, "ast": ast, "names": names}
        metas.append(meta)

        def dic(text=text, plat=plat):
            p = ConfigParser(config=text, platform=plat)
            p.parse_config()
            return [[k, v] for k, v in p.dic.items()]

        def secs(text=text, plat=plat, names=names):
            p = ConfigParser(config=text, platform=plat)
            p.parse_config()
            out = []
            for d in p.acls(names=names):
                key, _, body = d["line"].partition("\n")
                # the type text of the key (regex group), as the model reports it
                import re
                ty = (re.findall("ip access-list (extended |standard )?(.+)", key) or [("", "")])[0][0].strip()
                out.append([d["name"], ty, key, body.split("\n") if body else [], d["input"], d["output"]])
            return out

        def grps(text=text, plat=plat):
            p = ConfigParser(config=text, platform=plat)
            p.parse_config()
            return [[d["name"], d["items"]] for d in p.addgrs()]
        cases.append(Case(f"run_dic {coq_str(text)}", outcome(dic), dict(meta, part="dic")))
        cn = "None" if names is None else f"(Some {coq_list(coq_str(x) for x in names)})"
        cases.append(Case(f"run_acl_sections {PL[plat]} {cn} {coq_str(text)}", outcome(secs), dict(meta, part="acls")))
        cases.append(Case(f"run_addgr_sections {coq_str(text)}", outcome(grps), dict(meta, part="addgrs")))
        if any(v["in"] or v["out"] for v in ast["binds"].values()) or "object-group" in text or "addrgroup" in text:
            nontrivial.add(text)
    ctx.samples += [metas[0]["text"], metas[-1]["text"]]
    ctx.coverage["distinct_nontrivial"] = len(nontrivial)
    ctx.coverage["input_distribution"] = {"configs": n, "with_bindings_or_groups": len(nontrivial)}
    core.eval_cases(ctx, "K-config", ["gen.Tables", "model.Cfg", "model.Names", "model.Lex", "model.Config", "run.RunConfig"],
                    cases, chunk=max(10, len(cases) // 16 + 1))
    # the public functions against the generator's expectation, on every configuration
    for meta in metas:
        f = oracle(ctx, "K-config", meta)
        if f:
            raise core.ImplViolation(dict(kind="input", kernel="K-config", input=meta, failure=f))


def oracle(ctx, kernel, meta):
    ca = core.impl_module()
    plat, text, ast, names = meta["platform"], meta["text"], meta["ast"], meta["names"]
    try:
        res = ca.acls(text, platform=plat, names=names)
    except Exception as ex:  # noqa
        return {"what": f"acls() raised {type(ex).__name__}: {ex}"}
    want = [n for n in ast["order"] if names is None or n in names]
    if [a.name for a in res] != want:
        return {"what": f"acls() returned {[a.name for a in res]}, the configuration defines {want} (names={names})"}
    for a in res:
        n = a.name
        if a.type != ast["types"][n] and plat == "ios":
            return {"what": f"ACL {n}: type {a.type}, configured {ast['types'][n]}"}
        # entries and remarks in configuration order
        exp = []
        for l in ast["bodies"][n]:
            try:
                exp.append(ca.Remark(l, platform=plat).line if l.startswith("remark ") else ca.Ace(l, platform=plat).line)
            except Exception as ex:  # noqa
                return {"what": f"ACL {n}: the configured line {l!r} is read by acls() but refused on its own "
                                f"({type(ex).__name__}: {ex}); items {[o.line for o in a.items]}"}
        if [o.line for o in a.items] != exp:
            return {"what": f"ACL {n}: items {[o.line for o in a.items]} differ from the configured lines {exp}"}
        if a.input != ast["binds"][n]["in"] or a.output != ast["binds"][n]["out"]:
            return {"what": f"ACL {n}: input={a.input} output={a.output}, configured in={ast['binds'][n]['in']} "
                            f"out={ast['binds'][n]['out']}"}
        for o in a.items:
            if o.__class__.__name__ != "Ace":
                continue
            for ad in (o.srcaddr, o.dstaddr):
                if ad.type != "addrgroup":
                    continue
                mem = ast["groups"].get(ad.addrgroup)
                got = sorted((int(x.network_address), x.prefixlen) for x in ad.ipnets())
                exp_m = sorted((b, 32 - bin(m).count("1")) for b, m in mem) if mem is not None else []
                if got != exp_m:
                    return {"what": f"ACL {n}: members of group {ad.addrgroup!r} are {got}, the configuration defines {exp_m}"}
    try:
        gs = ca.addrgroups(text, platform=plat)
    except Exception as ex:  # noqa
        return {"what": f"addrgroups() raised {type(ex).__name__}: {ex}"}
    if sorted(g.name for g in gs) != sorted(ast["groups"]):
        return {"what": f"addrgroups() returned {[g.name for g in gs]}, configured {sorted(ast['groups'])}"}
    return None


def search(ctx):
    return None


def known_lines(ctx):
    return []


def matches_known(ctx, kernel, meta, failure):
    return None
