"""C03 - shadow detection is sound: a reported shadow is really covered; skip is antitone."""
from __future__ import annotations

import random

from harness import core, acegen
from harness.kernels import shadow

LEVEL = "proof"
MODEL_TARGETS = shadow.TARGETS
RULE = ("ordered (bottom, top) ACE pairs: top random over protocols / any, host, prefix, non-contiguous wildcards / "
        "address groups with 0..4 member networks / all five port operators incl. empty sets / TCP flags / logs, "
        "bottom derived by mutating 0..3 fields (so a measured fraction is in shadow) or independent; both "
        "platforms; every one of the 4 subsets of skip options per pair. Non-trivial = the library answered True for "
        "some skip subset, or raised; distinct = distinct (bottom text, top text, platform).")


def correspond(ctx):
    recs = shadow.run(ctx, groups=True)
    ctx.coverage["distinct_nontrivial"] = len({(r["bottom_text"], r["top_text"], r["platform"]) for r in recs
                                               if any(a is True or isinstance(a, core.Err) for a in r["answers"].values())})


def _check(answers, bottom, top, rnd):
    for si, a in enumerate(answers):
        if a is True:
            if bottom["permit"] != top["permit"]:
                return {"what": f"reported shadow with different actions (skip={shadow.SKIPS[si]})"}
            if acegen.group_free(bottom) and acegen.group_free(top):
                if not acegen.covered_exact(bottom, top) and acegen.nonempty_ports(bottom):
                    pk = acegen.witness_not_covered(rnd, bottom, top, 2000)
                    return {"what": f"reported shadow (skip={shadow.SKIPS[si]}) but the bottom's packet set is not "
                                    f"inside the top's", "packet": pk}
            pk = acegen.witness_not_covered(rnd, bottom, top)
            if pk:
                return {"what": f"reported shadow (skip={shadow.SKIPS[si]}) but packet {pk} matches the bottom "
                                f"entry and not the top entry", "packet": pk}
    # adding skip options can only turn true into false
    for small, big in ((0, 1), (0, 2), (0, 3), (1, 3), (2, 3)):
        if answers[big] is True and answers[small] is False:
            return {"what": f"skip={shadow.SKIPS[big]} answers True although skip={shadow.SKIPS[small]} answers False"}
    return None


def oracle(ctx, kernel, meta):
    ca = core.impl_module()
    try:
        answers, _, _ = shadow.impl_answer(ca, meta)
    except Exception:  # noqa
        return None
    bottom, top = meta["abstract"]
    return _check(answers, bottom, top, random.Random(5))


def search(ctx):
    ca = core.impl_module()
    rnd, pairs = shadow.gen_pairs(ctx, True)
    from cisco_acl import protocol as pr
    for plat, bottom, top in pairs[:400]:
        sb = acegen.spell_ace(rnd, plat, bottom, pr.NR_TO_PROTOCOL[plat])
        st = acegen.spell_ace(rnd, plat, top, pr.NR_TO_PROTOCOL[plat])
        meta = {"k": "shadow", "platform": plat, "skip": [], "bottom": sb["text"], "top": st["text"],
                "bottom_members": [sb["src_members"], sb["dst_members"]],
                "top_members": [st["src_members"], st["dst_members"]], "abstract": [bottom, top]}
        f = oracle(ctx, "K-shadow", meta)
        if f:
            return dict(kind="input", kernel="K-shadow", input=meta, failure=f)
    return None


def known_lines(ctx):
    return []


def matches_known(ctx, kernel, meta, failure):
    return None
