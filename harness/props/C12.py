"""C12 - no rule line is lost without a trace when objects are built from text."""
from __future__ import annotations

import logging
import random

from harness import core, acegen
from harness.core import Case, coq_list, coq_str, outcome
from harness.kernels import acetext

LEVEL = "proof"
MODEL_TARGETS = ["run/RunAclText.vo"]
RULE = ("body lines of every kind in any order and proportion: valid ACEs and remarks (numbered or not, any "
        "whitespace), ignorable lines (statistics / description / ignore, also with those words in the middle), "
        "malformed ACE lines (dropped / glued / junk tokens), arbitrary non-ACL lines, empty lines, over-limit "
        "non-contiguous wildcards; single lines through AceGroup._line_to_oace and whole bodies of 0..8 lines through "
        "Acl(text) / AceGroup(text) with a capturing handler on the root logger; address groups with valid, invalid "
        "and description lines through both construction paths. Non-trivial = distinct line / body.")
IMPORTS = acetext.IMPORTS + ["model.AclText", "run.RunAclText"]


class Capture(logging.Handler):
    def __init__(self):
        super().__init__(level=logging.DEBUG)
        self.records = []

    def emit(self, record):
        self.records.append(record)


class capture_logs:
    def __enter__(self):
        self.h = Capture()
        self.root = logging.getLogger()
        self.old_level = self.root.level
        self.old_disable = logging.root.manager.disable
        logging.disable(logging.NOTSET)
        self.root.setLevel(logging.DEBUG)
        self.root.addHandler(self.h)
        return self.h

    def __exit__(self, *a):
        self.root.removeHandler(self.h)
        self.root.setLevel(self.old_level)
        logging.disable(self.old_disable)


def gen_line(rnd, ca, plat):
    r = rnd.random()
    if r < 0.4:
        a = acegen.rand_ace(rnd, plat, groups=False)
        toks = acetext.valid_text(rnd, ca, plat, "0", a, rnd.choice([None, 10, 20]))
        return acetext.with_ws(rnd, toks), "valid"
    if r < 0.5:
        pre = rnd.choice(["", "10 ", "5   "])
        return pre + "remark " + rnd.choice(["text", "= C-1, x", "statistics per-entry", "  padded  text ", "4711", "2024 0815",
                                             "100", "rule 7", "7 rule", "0"]), "valid"
    if r < 0.62:
        return rnd.choice(["statistics per-entry", "description uplink acl", "ignore routing", "statistics ",
                           "  statistics per-entry", "description"]), "ignorable"
    if r < 0.72:
        return rnd.choice(["no statistics per-entry", "interface description uplink", "fragments ignore all",
                           "ip access-group A in", "evaluate X", "!", "exit", "10", "10 20", "permit", "deny ",
                           "10permit ip any any", "remark", "10 remark"]), "other"
    if r < 0.78:
        return rnd.choice(["", "   ", "\t"]), "blank"
    if r < 0.83:
        m = 0
        for b in rnd.sample(range(2, 31), 18):
            m |= 1 << b
        return f"permit ip 10.0.0.0 {acegen.ag.ip(m)} any", "overlimit"
    a = acegen.rand_ace(rnd, plat, groups=False)
    toks = acetext.valid_text(rnd, ca, plat, "0", a, rnd.choice([None, 10]))
    for _ in range(rnd.choice([1, 2])):
        toks = acetext.malformed(rnd, toks)
    return " ".join(toks), "malformed"


def impl_classify(ca, plat, line):
    """AceGroup._line_to_oace on one (normalised) line, with the log records it produced"""
    from ipaddress import NetmaskValueError
    from cisco_acl import helpers as h
    g = ca.AceGroup(platform=plat)
    with capture_logs() as cap:
        try:
            o = g._line_to_oace(h.init_line(line), warning=True)
        except NetmaskValueError:
            return ["abort"]
    # prefix_to_ipnet() emits its own "has host bits set" warning: not a report about a dropped line
    warned = [r for r in cap.records if r.levelno >= logging.WARNING and "does not match ACE pattern" in r.getMessage()]
    if not h.init_line(line):
        return ["blank"]
    if o is not None:
        return ["item", o.line]
    if warned:
        if not all(h.init_line(line) in r.getMessage() or repr(h.init_line(line)) in r.getMessage() for r in warned):
            return ["reported-without-line"]
        return ["reported"]
    return ["ignorable"]


def correspond(ctx):
    ca = core.impl_module()
    rnd = random.Random(ctx.seed)
    n = 700 if ctx.tier == "quick" else 12000
    cases, nontrivial = [], set()
    kinds = {}
    for _ in range(n):
        plat = rnd.choice(["ios", "nxos"])
        line, kind = gen_line(rnd, ca, plat)
        kinds[kind] = kinds.get(kind, 0) + 1
        meta = {"k": "line", "platform": plat, "line": line, "kind": kind}
        cases.append(Case(f"run_classify {acetext.cfg_coq(plat, '0', False, False)} {coq_str(line)}",
                          outcome(lambda: impl_classify(ca, plat, line)), meta))
        nontrivial.add(line)
    # whole bodies through Acl(text) and AceGroup(text)
    m = 200 if ctx.tier == "quick" else 4000
    for _ in range(m):
        plat = rnd.choice(["ios", "nxos"])
        body = [gen_line(rnd, ca, plat)[0] for _ in range(rnd.randint(0, 8))]
        via = rnd.choice(["acl", "aceg"])
        meta = {"k": "body", "platform": plat, "lines": body, "via": via}

        def run(body=body, plat=plat, via=via):
            with capture_logs() as cap:
                if via == "acl":
                    head = "ip access-list extended A" if plat == "ios" else "ip access-list A"
                    o = ca.Acl("\n".join([head] + body), platform=plat)
                else:
                    o = ca.AceGroup("\n".join(body), platform=plat)
            return [[x.line for x in o.items],
                    len([r for r in cap.records if r.levelno >= logging.WARNING
                         and "does not match ACE pattern" in r.getMessage()])]
        cases.append(Case(f"run_body {acetext.cfg_coq(plat, '0', False, False)} {coq_list(coq_str(b) for b in body)}",
                          outcome(run), meta))
        nontrivial.add(repr(body))
    ctx.samples += [cases[0].meta, cases[n // 2].meta, cases[-1].meta]
    ctx.coverage["distinct_nontrivial"] = len(nontrivial)
    ctx.coverage["input_distribution"] = {"single_lines": kinds, "bodies": m}
    core.eval_cases(ctx, "K-classify", IMPORTS, cases, chunk=max(10, len(cases) // 16 + 1))
    # address groups: every non-empty member line is an item, a description, reported, or the construction fails
    for _ in range(150 if ctx.tier == "quick" else 2000):
        plat = rnd.choice(["ios", "nxos"])
        f = _addrgroup_check(ca, rnd, plat)
        if f:
            raise core.ImplViolation(f)


def _addrgroup_lines(rnd, plat):
    good = ["host 10.0.0.1", "10.0.0.0/24", "10 host 10.0.0.2", "20 10.1.0.0/16"] if plat == "nxos" else \
        ["host 10.0.0.1", "10.0.0.0 255.255.255.0", "10.1.0.0 255.255.0.0", "group-object OTHER"]
    bad = ["description some text", "foo bar", "host 300.1.1.1", "10.0.0.0 0.0.0.255" if plat == "ios" else "bogus 1",
           "range 10.0.0.1 10.0.0.9", "host", "any" if plat == "ios" else "xyz"]
    lines = []
    for _ in range(rnd.randint(1, 6)):
        lines.append(rnd.choice(good if rnd.random() < 0.6 else bad))
    return lines


def _addrgroup_check(ca, rnd, plat):
    lines = _addrgroup_lines(rnd, plat)
    head = "object-group network G" if plat == "ios" else "object-group ip address G"
    for path in ("line", "items"):
        with capture_logs() as cap:
            try:
                if path == "line":
                    o = ca.AddrGroup("\n".join([head] + lines), platform=plat)
                else:
                    o = ca.AddrGroup(name="G", items=list(lines), platform=plat)
            except (ValueError, TypeError):
                continue    # the whole construction fails with an error: allowed
            except Exception as ex:  # noqa
                return dict(kind="input", kernel="K-addrgroup", input={"platform": plat, "lines": lines, "path": path},
                            failure={"what": f"AddrGroup construction raised {type(ex).__name__}: {ex}"})
        msgs = [r.getMessage() for r in cap.records]
        items = [x.line for x in o.items]
        # order: the items must appear in line order; every line not represented must be a description or reported
        pos = 0
        for ln in lines:
            norm = " ".join(ln.split())
            try:
                single = ca.AddressAg(norm, platform=plat).line
            except Exception:  # noqa
                single = None
            if single is not None and pos < len(items) and items[pos] == single:
                pos += 1
                continue
            if norm.startswith("description "):
                continue
            if any(norm in m or repr(norm) in m for m in msgs):
                continue
            if single is not None:
                return dict(kind="input", kernel="K-addrgroup", input={"platform": plat, "lines": lines, "path": path},
                            failure={"what": f"valid address-group line {ln!r} is not represented at its position "
                                             f"(items {items})"})
            return dict(kind="input", kernel="K-addrgroup", input={"platform": plat, "lines": lines, "path": path},
                        failure={"what": f"address-group line {ln!r} was dropped without an item, log record or error"})
        if pos != len(items):
            return dict(kind="input", kernel="K-addrgroup", input={"platform": plat, "lines": lines, "path": path},
                        failure={"what": f"items {items} are not the valid lines in line order"})
    return None


def oracle(ctx, kernel, meta):
    """independent accounting: the line is an item, ignorable by the documented prefixes, reported, or aborts"""
    ca = core.impl_module()
    if meta["k"] != "line":
        return None
    plat, line = meta["platform"], meta["line"]
    res = impl_classify(ca, plat, line)
    norm = " ".join(line.split())
    if res[0] == "ignorable" and not any(norm.startswith(p) for p in ("statistics ", "description ", "ignore ")):
        return {"what": f"line {norm!r} was dropped without an item and without a warning record"}
    if res[0] == "reported-without-line":
        return {"what": f"the warning for {norm!r} does not name the line"}
    if meta["kind"] == "valid" and res[0] != "item":
        return {"what": f"valid line {norm!r} was dropped ({res[0]})"}
    return None


def search(ctx):
    return None


def known_lines(ctx):
    return []


def matches_known(ctx, kernel, meta, failure):
    return None
