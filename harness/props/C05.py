"""C05 - wildcard -> prefixes is exact; limits reject, never truncate; no stale results."""
from __future__ import annotations

import itertools
import random
from ipaddress import IPv4Address

from harness import core
from harness.core import Case, coq_Z, outcome

LEVEL = "proof"
MODEL_TARGETS = ["run/RunWild.vo"]
RULE = ("(limit, base, mask) triples: masks are built as a contiguous low run r in 0..32 plus 0..7 extra wildcard "
        "bits above it (all shapes with <=2 extra bits over a position grid, random beyond), all-ones / zero / "
        "random masks; limits 0..30 incl. the boundary count==limit and count==limit+1 and invalid limits; "
        "fprefix/fsubnet inputs; histories of up to 8 set-line/query operations on one object drawn from a small "
        "pool of bases and masks (so same-mask/different-base reassignments occur). Non-trivial = mask has at "
        "least one non-contiguous bit, or an error outcome, or a history with >=1 reassignment after a query.")

ALL = 2 ** 32 - 1


def ip(n):
    return str(IPv4Address(n))


def netv(n):
    return [int(n.network_address), n.prefixlen]


def safe_nets(w):
    """w.ipnets(), unless the accepted mask needs more than 16 non-contiguous bits: a broken limit check must not
    make the harness enumerate 2^k prefixes (the refusal itself is what the case compares)"""
    k = ncount(int(IPv4Address(w.wildmask)))
    if k > 16:
        return [["accepted-with-nc-bits", k]]
    return [netv(n) for n in w.ipnets()]


def obs(w):
    return [int(IPv4Address(w.prefix)), int(IPv4Address(w.wildmask)),
            [netv(w.ipnet)] if w.ipnet is not None else [], safe_nets(w)]


def mk_mask(r, extra):
    m = (1 << r) - 1
    for b in extra:
        m |= 1 << b
    return m & ALL


def gen_masks(rnd, tier):
    masks = {0, ALL, 1, 2, 0x80000000, 0xFFFFFFFE, 0x7FFFFFFF, 0x0000FF00, 0x00FF00FF, 0x000001FE}
    grid = [0, 1, 2, 7, 8, 15, 16, 23, 24, 30, 31]
    for r in range(0, 33):
        masks.add(mk_mask(r, []))
        above = [b for b in (grid if tier == "quick" else range(32)) if b > r]
        for b in above:
            masks.add(mk_mask(r, [b]))
        pairs = list(itertools.combinations(above, 2))
        if tier == "quick":
            pairs = rnd.sample(pairs, min(4, len(pairs)))
        for p in pairs:
            masks.add(mk_mask(r, p))
    for _ in range(150 if tier == "quick" else 3000):
        r = rnd.choice([0, 0, 1, 2, 3, 8, rnd.randint(0, 24)])
        k = rnd.randint(1, 7)
        cand = [b for b in range(r + 1, 32)]
        if len(cand) >= k:
            masks.add(mk_mask(r, rnd.sample(cand, k)))
    for _ in range(30):
        m = 0
        for _ in range(rnd.randint(1, 6)):
            m |= 1 << rnd.randint(0, 31)
        masks.add(m)
    return sorted(masks)


def ncount(mask):
    r = 0
    while r < 32 and mask >> r & 1:
        r += 1
    return bin(mask >> r).count("1")


def correspond(ctx):
    ca = core.impl_module()
    W = ca.Wildcard
    rnd = random.Random(ctx.seed)
    cases, nontrivial = [], set()
    masks = gen_masks(rnd, ctx.tier)
    bases = [0, ALL, 0x0A000000, 0xC0A80101, 0x0A0A0A0A, 0xAC10FFFF]

    def add(model, impl, meta, nt):
        cases.append(Case(model, impl, meta))
        if nt:
            nontrivial.add(repr(meta))

    # --- single objects
    for mask in masks:
        k = ncount(mask)
        lims = {16, k, max(k - 1, 0), min(k + 1, 30), 0, 30}
        for lim in sorted(lims):
            if k > 9 and lim >= k:
                continue  # keep the expansion small (2^k prefixes)
            base = rnd.choice(bases + [rnd.getrandbits(32)])
            meta = {"k": "wild", "limit": lim, "base": base, "mask": mask}
            add(f"run_wild {coq_Z(lim)} {base} {mask}",
                outcome(lambda: obs(W(f"{ip(base)} {ip(mask)}", max_ncwb=lim))), meta, k > 0)
    for lim in (-1, 31, 100, -5):
        add(f"run_wild {coq_Z(lim)} 167772160 255", outcome(lambda: obs(W("10.0.0.0 0.0.0.255", max_ncwb=lim))),
            {"k": "wild", "limit": lim, "base": 167772160, "mask": 255}, True)
    # --- fprefix / fsubnet
    for _ in range(120 if ctx.tier == "quick" else 2000):
        a = rnd.choice(bases + [rnd.getrandbits(32)])
        ln = rnd.choice(list(range(0, 34)) + [32, 31, 24, 0])
        add(f"run_fprefix {coq_Z(16)} {a} {ln}%nat", outcome(lambda: obs(W.fprefix(f"{ip(a)}/{ln}"))),
            {"k": "fprefix", "addr": a, "len": ln}, True)
        ln2 = rnd.randint(0, 32)
        m = rnd.choice([(ALL << (32 - ln2)) & ALL, (1 << ln2) - 1, rnd.choice(masks), 0, ALL])
        a2 = rnd.choice([a, a & m, a & ((ALL << (32 - ln2)) & ALL)])
        add(f"run_fsubnet {coq_Z(16)} {a2} {m}", outcome(lambda: obs(W.fsubnet(f"{ip(a2)} {ip(m)}"))),
            {"k": "fsubnet", "addr": a2, "mask": m}, True)
    # --- histories on one object
    small = [m for m in masks if ncount(m) <= 5]
    n_hist = 250 if ctx.tier == "quick" else 4000
    corpus = [
        (16, [("new", 0x0A000000, 0x103), ("ask", "QIpnets"), ("set", 0x14000000, 0xFF), ("ask", "QIpnets")]),  # F1
        (16, [("new", 0x0A000000, 3), ("ask", "QIpnets"), ("set", 0x0A000004, 3), ("ask", "QIpnets")]),
    ]
    hists = list(corpus)
    for _ in range(n_hist):
        pool_m = rnd.sample(small, 3)
        pool_b = [rnd.getrandbits(32) for _ in range(3)] + [0x0A000000]
        lim = rnd.choice([16, 16, 3, 1, 0, 30])
        ops = [("new", rnd.choice(pool_b), rnd.choice(pool_m))]
        for _ in range(rnd.randint(2, 8)):
            if rnd.random() < 0.4:
                ops.append(("set", rnd.choice(pool_b), rnd.choice(pool_m)))
            else:
                ops.append(("ask", rnd.choice(["QLine", "QIpnet", "QIpnets", "QIpnets"])))
        hists.append((lim, ops))
    for lim, ops in hists:
        _, b0, m0 = ops[0]

        def run(lim=lim, ops=ops, b0=b0, m0=m0):
            w = W(f"{ip(b0)} {ip(m0)}", max_ncwb=lim)
            out = []
            for op in ops[1:]:
                if op[0] == "set":
                    try:
                        w.line = f"{ip(op[1])} {ip(op[2])}"
                        out.append(True)
                    except Exception:  # noqa
                        out.append(False)
                        break
                elif op[1] == "QLine":
                    out.append([int(IPv4Address(w.prefix)), int(IPv4Address(w.wildmask))])
                    assert w.line == f"{w.prefix} {w.wildmask}"
                elif op[1] == "QIpnet":
                    out.append([netv(w.ipnet)] if w.ipnet is not None else [])
                else:
                    out.append(safe_nets(w))
            return out
        coq_ops = "[" + "; ".join((f"OSet {o[1]} {o[2]}" if o[0] == "set" else f"OAsk {o[1]}") for o in ops[1:]) + "]"
        add(f"run_wild_hist {coq_Z(lim)} {b0} {m0} {coq_ops}", outcome(run),
            {"k": "hist", "limit": lim, "ops": ops}, any(o[0] == "set" for o in ops[2:]))

    ctx.samples += [cases[3].meta, cases[len(cases) // 2].meta, cases[-1].meta]
    ctx.coverage["distinct_nontrivial"] = len(nontrivial)
    ctx.coverage["input_distribution"] = {
        "masks": len(masks), "single_objects": sum(1 for c in cases if c.meta["k"] == "wild"),
        "histories": len(hists), "errors_expected": sum(1 for c in cases if isinstance(c.impl, core.Err)),
        "nc_bits_histogram": {str(k): sum(1 for m in masks if ncount(m) == k) for k in range(0, 9)}}
    core.eval_cases(ctx, "K-wild", ["gen.Tables", "model.Wildcard", "run.RunWild"], cases, chunk=150)


# ------------------------------------------------------------------ independent oracle
def _check_object(W, lim, base, mask):
    k = ncount(mask)
    try:
        w = W(f"{ip(base)} {ip(mask)}", max_ncwb=lim)
    except Exception as ex:  # noqa
        name = type(ex).__name__
        if not 0 <= lim <= 30:
            return None if name == "ValueError" else {"what": f"limit {lim}: {name} instead of ValueError"}
        if k > lim:
            return None if name == "NetmaskValueError" else {"what": f"{k} nc bits > limit {lim}: {name}"}
        return {"what": f"valid wildcard rejected: {name}: {ex}"}
    if not 0 <= lim <= 30:
        return {"what": f"limit {lim} accepted"}
    if k > lim:
        return {"what": f"mask {ip(mask)} needs {k} non-contiguous bits, limit {lim}, accepted and approximated"}
    return _check_nets(w, base, mask)


def _check_nets(w, base, mask):
    k = ncount(mask)
    if k > 16:
        return {"what": f"a mask with {k} non-contiguous bits was accepted (not expanded by the harness)"}
    nets = w.ipnets()
    want = base & ~mask & ALL
    if int(IPv4Address(w.prefix)) != want or int(IPv4Address(w.wildmask)) != mask:
        return {"what": f"line {w.line!r} does not describe base&~mask / mask"}
    if len(nets) != 2 ** k:
        return {"what": f"{len(nets)} prefixes, expected 2^{k}"}
    lens = {n.prefixlen for n in nets}
    if len(lens) != 1:
        return {"what": f"prefix lengths differ: {sorted(lens)}"}
    ln = lens.pop()
    host = (1 << (32 - ln)) - 1
    if (~mask & ALL) & host:
        return {"what": f"a non-wildcard bit lies inside the host part of /{ln}: extra addresses"}
    seen = set()
    for n in nets:
        p = int(n.network_address)
        if p & host:
            return {"what": f"{n} has host bits"}
        if p & ~mask & ALL != want:
            return {"what": f"{n} disagrees with the base on a non-wildcard bit"}
        if p in seen:
            return {"what": f"{n} listed twice (overlap)"}
        seen.add(p)
    if len(nets) * (host + 1) != 2 ** bin(mask).count("1"):
        return {"what": "prefixes do not cover the whole wildcard set"}
    single = w.ipnet
    if (single is not None) != (k == 0):
        return {"what": f"single network reported={single}, mask contiguous={k == 0}"}
    if single is not None and [single] != nets:
        return {"what": f"ipnet {single} != ipnets {nets}"}
    return None


def oracle(ctx, kernel, meta):
    ca = core.impl_module()
    W = ca.Wildcard
    k = meta.get("k")
    if k == "wild":
        return _check_object(W, meta["limit"], meta["base"], meta["mask"])
    if k == "hist":
        ops = meta["ops"]
        lim = meta["limit"]
        try:
            w = W(f"{ip(ops[0][1])} {ip(ops[0][2])}", max_ncwb=lim)
        except Exception:  # noqa
            return _check_object(W, lim, ops[0][1], ops[0][2])
        cur = (ops[0][1], ops[0][2])
        for i, op in enumerate(ops[1:], 1):
            if op[0] == "set":
                try:
                    w.line = f"{ip(op[1])} {ip(op[2])}"
                except Exception:  # noqa
                    return _check_object(W, lim, op[1], op[2])
                cur = (op[1], op[2])
            else:
                f = _check_nets(w, *cur)
                if f:
                    f["what"] = f"after step {i} of the history (stale or wrong derived value): " + f["what"]
                    return f
        return None
    if k == "fprefix":
        a, ln = meta["addr"], meta["len"]
        if ln > 32:
            return None
        try:
            w = W.fprefix(f"{ip(a)}/{ln}")
        except Exception as ex:  # noqa
            return {"what": f"fprefix rejected a valid prefix: {ex}"}
        m = (1 << (32 - ln)) - 1
        return _check_nets(w, a & ~m & ALL, m)
    return None


def search(ctx):
    ca = core.impl_module()
    rnd = random.Random(ctx.seed + 1)
    for mask in gen_masks(rnd, "quick"):
        if ncount(mask) > 8:
            continue
        for lim in (16, ncount(mask), max(ncount(mask) - 1, 0)):
            meta = {"k": "wild", "limit": lim, "base": rnd.getrandbits(32), "mask": mask}
            f = oracle(ctx, "K-wild", meta)
            if f:
                return dict(kind="input", kernel="K-wild", input=meta, failure=f)
    return None


def known_lines(ctx):
    return []


def matches_known(ctx, kernel, meta, failure):
    return None
