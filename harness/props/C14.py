"""C14 - collapsing addresses preserves the covered address set exactly."""
from __future__ import annotations

import random

from harness import core, addrgen as ag
from harness.core import Case, coq_bool, coq_list, outcome

LEVEL = "proof"
MODEL_TARGETS = ["run/RunCollapse.vo"]
RULE = ("lists of 0..8 contiguous addresses (Address or AddressAg, IOS or NX-OS) built around a random base block: "
        "halves, quarters, hosts, duplicates, nested and adjacent networks in random order (so chains of merges, "
        "covered networks and partial siblings occur), all spellings; plus lists containing a non-contiguous "
        "wildcard or a foreign object (must be refused). Non-trivial = the result differs from the sorted input "
        "or an error; distinct = distinct input text list.")
PL = {"ios": "Ios", "nxos": "Nxos"}


def gen_nets(rnd):
    ln = rnd.choice([8, 16, 22, 24, 28, 30, 31])
    base = rnd.getrandbits(32) & ag.netmask(ln)
    if rnd.random() < 0.1:
        base, ln = 0, 0
    out = []
    for _ in range(rnd.randint(0, 8)):
        l2 = min(32, ln + rnd.choice([0, 1, 1, 2, 2, 3, 8]))
        sub = base | (rnd.getrandbits(32) & ag.hostmask(ln) & ag.netmask(l2))
        out.append((sub, l2))
        if rnd.random() < 0.4 and l2 > 0:  # the sibling
            out.append((sub ^ (1 << (32 - l2)), l2))
        if rnd.random() < 0.15:
            out.append(out[-1])
    rnd.shuffle(out)
    return out[:8]


def correspond(ctx):
    ca = core.impl_module()
    from cisco_acl import address, address_ag
    rnd = random.Random(ctx.seed)
    n = 600 if ctx.tier == "quick" else 12000
    cases, nontrivial = [], set()
    for _ in range(n):
        plat = rnd.choice(["ios", "nxos"])
        is_ag = rnd.random() < 0.45
        nets = gen_nets(rnd)
        if is_ag and plat == "ios" and _covered(nets) == [[0, ag.ALL]]:
            # known finding N3: AddressAg on IOS cannot express 0.0.0.0/0 (reported by known_lines)
            nets = [(b, l) for b, l in nets if l > 1 and b < 2 ** 31]
        sp = [(ag.spell_ag(rnd, plat, b, ag.hostmask(l)) if is_ag else ag.spell(rnd, plat, b, ag.hostmask(l), dirty=False))
              for b, l in nets]
        bad = rnd.random() < 0.08
        if bad and not (is_ag and plat == "ios"):
            m = ag.rand_nc_mask(rnd, 2)
            sp.insert(rnd.randint(0, len(sp)), (f"(SWild 167772160 {m})", f"10.0.0.0 {ag.ip(m)}"))
        meta = {"k": "collapse", "platform": plat, "ag": is_ag, "texts": [t for _, t in sp], "nets": nets, "bad": bad}
        cls = ca.AddressAg if is_ag else ca.Address
        fn = address_ag.collapse if is_ag else address.collapse

        def run(sp=sp, plat=plat, cls=cls, fn=fn):
            objs = [cls(t, platform=plat, note="n") for _, t in sp]
            res = fn(objs)
            assert all(isinstance(o, cls) and o.platform == plat for o in res)
            return [[int(o.ipnet.network_address), o.ipnet.prefixlen] for o in res]
        impl = outcome(run)
        cases.append(Case(f"run_collapse {coq_bool(is_ag)} {PL[plat]} 16%Z {coq_list(c for c, _ in sp)}", impl, meta))
        if isinstance(impl, core.Err) or sorted(impl) != sorted([list(x) for x in set(nets)]):
            nontrivial.add(repr((plat, is_ag, meta["texts"])))
    # histories and foreign types, on the implementation: a result is a new object each time (editing it must not show
    # up in a later call or in the inputs), and lists of the wrong class are refused with TypeError
    for c in cases[:: max(1, len(cases) // (150 if ctx.tier == "quick" else 3000))]:
        f = _history_check(ca, c.meta)
        if f:
            raise core.ImplViolation(dict(kind="input", kernel="K-collapse", input=dict(c.meta, history=True), failure=f))
    ctx.samples += [cases[0].meta, cases[len(cases) // 2].meta, cases[-1].meta]
    ctx.coverage["distinct_nontrivial"] = len(nontrivial)
    ctx.coverage["input_distribution"] = {"lists": len(cases), "refused": sum(isinstance(c.impl, core.Err) for c in cases),
                                          "merged_or_dropped": len(nontrivial)}
    core.eval_cases(ctx, "K-collapse", ["gen.Tables", "model.Cfg", "model.Wildcard", "model.Addr", "model.Collapse",
                                        "run.RunAddr", "run.RunCollapse"], cases, chunk=100)


def _covered(nets):
    """set of maximal disjoint intervals covered by the networks"""
    iv = sorted((b, b + (1 << (32 - l)) - 1) for b, l in nets)
    out = []
    for a, b in iv:
        if out and a <= out[-1][1] + 1:
            out[-1][1] = max(out[-1][1], b)
        else:
            out.append([a, b])
    return out


def _history_check(ca, meta):
    from cisco_acl import address, address_ag
    plat, is_ag = meta["platform"], meta["ag"]
    cls = ca.AddressAg if is_ag else ca.Address
    other = ca.Address if is_ag else ca.AddressAg
    fn = address_ag.collapse if is_ag else address.collapse
    view = lambda res: [(o.line, o.platform, o.note, type(o).__name__) for o in res]
    try:
        objs = [cls(t, platform=plat, note="n") for t in meta["texts"]]
        nets_before = [[str(n) for n in o.ipnets()] for o in objs]
        first = fn(objs)
    except Exception:  # noqa
        objs, first = None, None
    if first is not None:
        want = view(first)
        # the same input OBJECTS are used again: they still denote what they denoted, and a second collapse of
        # them (same order, reversed, each one alone with the others) gives the first result again
        if [[str(n) for n in o.ipnets()] for o in objs] != nets_before:
            return {"what": f"collapse() changed what its input objects denote: {meta['texts']} had networks "
                            f"{nets_before}, now {[[str(n) for n in o.ipnets()] for o in objs]}"}
        cov = lambda res: _covered([(int(o.ipnet.network_address), o.ipnet.prefixlen) for o in res])
        for order, lst in (("same order", objs), ("reversed", list(reversed(objs))), ("rotated", objs[1:] + objs[:1])):
            rep = fn(lst)
            # the same list again gives the same result; another order may merge differently (the result is not
            # promised to be minimal) but covers the same addresses with no more elements than the input
            if (view(rep) != want) if order == "same order" else (cov(rep) != cov(first) or len(rep) > len(objs)):
                return {"what": f"collapse() of the same input objects again ({order}) gives "
                                f"{[o.line for o in rep]}, the first call gave {[o.line for o in first]} "
                                f"(inputs {meta['texts']})"}
        if [[str(n) for n in o.ipnets()] for o in objs] != nets_before:
            return {"what": f"repeated collapse() changed what its input objects denote: {meta['texts']}"}
        before_inputs = view(objs)
        for o in first:                      # the caller edits what it got
            o.note = "edited"
            try:
                o.platform = "nxos" if plat == "ios" else "ios"
                o.line = "host 9.9.9.9"
            except Exception:  # noqa
                pass
        if view(objs) != before_inputs:
            return {"what": "editing the result of collapse() changed the input objects"}
        again = fn([cls(t, platform=plat, note="n") for t in meta["texts"]])
        if view(again) != want:
            return {"what": f"a second collapse() of the same list gives {view(again)[:3]}, the first gave {want[:3]} "
                            f"(results of an earlier call were edited in between)"}
        if any(a is b for a in again for b in first):
            return {"what": "two calls of collapse() returned the same object"}
    # a list made of the other address class is refused
    try:
        texts = [t for t in meta["texts"] if "/" not in t or not is_ag] or meta["texts"]
        foreign = [other(t, platform=plat) for t in texts]
    except Exception:  # noqa
        foreign = None
    if foreign:
        try:
            r = fn(foreign)
            return {"what": f"{fn.__module__}.collapse() accepted a list of {other.__name__} objects and returned "
                            f"{[o.line for o in r]} instead of raising TypeError"}
        except TypeError:
            pass
        except Exception as ex:  # noqa
            return {"what": f"collapse() of foreign objects raised {type(ex).__name__}, TypeError expected"}
    return None


def oracle(ctx, kernel, meta):
    ca = core.impl_module()
    from cisco_acl import address, address_ag
    if meta.get("history"):
        return _history_check(ca, meta)
    plat, is_ag = meta["platform"], meta["ag"]
    cls = ca.AddressAg if is_ag else ca.Address
    fn = address_ag.collapse if is_ag else address.collapse
    try:
        objs = [cls(t, platform=plat, note="n") for t in meta["texts"]]
    except Exception:  # noqa
        return None
    try:
        res = fn(objs)
    except TypeError:
        return None if meta["bad"] else {"what": "collapse refused a list of contiguous addresses"}
    except Exception as ex:  # noqa
        return {"what": f"collapse raised {type(ex).__name__}: {ex}"}
    if meta["bad"]:
        return {"what": "collapse accepted a non-contiguous wildcard instead of refusing it"}
    got = [(int(o.ipnet.network_address), o.ipnet.prefixlen) for o in res]
    if _covered(got) != _covered([tuple(x) for x in meta["nets"]]):
        return {"what": f"covered set changed: input {meta['texts']} -> {[o.line for o in res]}"}
    if len(res) > len(objs):
        return {"what": "more elements than the input"}
    if got != sorted(got):
        return {"what": f"result not sorted: {[o.line for o in res]}"}
    if any(o.note for o in res) or any(type(o) is not cls or o.platform != plat for o in res):
        return {"what": "result carries a note or has another class/platform"}
    return None


def search(ctx):
    rnd = random.Random(ctx.seed + 5)
    for _ in range(1500):
        plat = rnd.choice(["ios", "nxos"])
        nets = gen_nets(rnd)
        texts = [ag.spell(rnd, plat, b, ag.hostmask(l), dirty=False)[1] for b, l in nets]
        meta = {"k": "collapse", "platform": plat, "ag": False, "texts": texts, "nets": nets, "bad": False}
        f = oracle(ctx, "K-collapse", meta)
        if f:
            return dict(kind="input", kernel="K-collapse", input=meta, failure=f)
    return None


def _n3(ca):
    from cisco_acl import address_ag
    try:
        address_ag.collapse([ca.AddressAg("0.0.0.0 128.0.0.0", platform="ios"), ca.AddressAg("128.0.0.0 128.0.0.0", platform="ios")])
        return False
    except ValueError:
        return True


def known_lines(ctx):
    ca = core.impl_module()
    out = []
    for f in core.load_findings("C14"):
        if f["status"] == "known" and f["id"] == "N3":
            if _n3(ca):
                out.append(f"{f['id']}: {f['what']}")
            else:
                ctx.notes.append("known finding N3 no longer reproduces")
    return out


def matches_known(ctx, kernel, meta, failure):
    if meta.get("ag") and meta.get("platform") == "ios" and _covered([tuple(x) for x in meta["nets"]]) == [[0, ag.ALL]] \
            and "ValueError" in failure.get("what", ""):
        return "N3"
    return None
