"""C17 - any sequence of public operations keeps an ACL consistent with a reference model."""
from __future__ import annotations

import itertools
import os
import random

from harness import core, acegen, addrgen as ag, cisco_reader as cr
from harness.kernels import ops

LEVEL = "proof"
MODEL_TARGETS = ["run/RunOps.vo"]
RULE = ("operation histories over the alphabet platform(ios|nxos), port_nr, protocol_nr, type, resequence(start, step), "
        "group(by) / ungroup, sort, reverse, insert(i, ACE), pop(i), copy, export/import (data with identifiers), "
        "re-parse, delete_shadow, ungroup_ports: random histories of length 1..8 from generated extended ACLs "
        "(remarks, heading remarks, related ACEs so that shadows exist, multi-port eq, names/numbers), and ALL "
        "histories up to length 2 over a 14-operation alphabet (thorough: also length 3 over 9 operations) from three seed ACLs. After every "
        "step: model (coq/model/Ops.v) vs implementation on text, flags, grouping, identifiers; on the implementation "
        "alone: the text parses back to itself, the rule list read by the independent reader equals the reference "
        "prediction, and the same operation applied to a freshly built equal object gives the same text. "
        "Non-trivial = history with >= 2 successful steps; distinct = distinct (ACL text, operation list).")
SEED_ACLS = [
    {"platform": "ios", "port_nr": False, "protocol_nr": False,
     "body": ["remark = B1", "10 permit tcp any eq 1 2 any eq www", "20 deny udp any any range 5 6", "remark = B2",
              "30 permit ip host 1.1.1.1 any", "remark plain", "40 permit tcp any any eq 443 8080",
              "50 permit tcp host 10.0.0.1 any eq 443"]},
    {"platform": "nxos", "port_nr": False, "protocol_nr": False,
     "body": ["permit tcp 10.0.0.0/24 any eq 22", "remark = B1", "permit tcp 10.0.0.0/25 any eq 22 log",
              "deny 47 any 192.168.0.0 0.0.3.255", "permit ip 172.16.0.0/12 any", "permit tcp 172.16.1.0/24 any",
              "permit udp 172.16.2.0/24 any eq 53"]},
    {"platform": "ios", "port_nr": True, "protocol_nr": True,
     "body": ["5 remark = B1", "7 permit 6 any any range 514 515", "9 permit udp any eq 514 any",
              "11 remark = B1", "13 deny ip 10.0.0.0 0.255.255.255 any", "15 deny ip 10.1.0.0 0.0.255.255 any",
              "17 deny tcp 10.2.0.0 0.0.255.255 any eq 22", "19 deny 47 10.3.0.0 0.0.255.255 any"]},
]
EXH_OPS = [["platform", "ios"], ["platform", "nxos"], ["port_nr", True], ["protocol_nr", True], ["type_ext"],
           ["resequence", 10, 10], ["group", "= "], ["ungroup"], ["sort"], ["reverse"], ["copy"], ["import_uuid"],
           ["delete_shadow"], ["ungroup_ports"]]


# ------------------------------------------------------------------ reference model (rule lists)
def _rule_of(line, plat):
    """one text line -> ('remark', seq, text) | ('ace', seq, abstract)"""
    toks = line.split()
    if "remark" in toks[:2]:
        seq = int(toks[0]) if toks[0].isdigit() else 0
        i = toks.index("remark")
        return ("remark", seq, " ".join(toks[i + 1:]))
    r = cr.read_ace(line, plat)
    return ("ace", r["seq"] or 0, r)


def _sem(r):
    """what a rule matches, as a comparable value"""
    if r[0] == "remark":
        return ("remark", r[2])
    a = r[2]

    def pset(p):
        if p is None:
            return None
        op, xs = p
        return (op, tuple(sorted(xs))) if op in ("eq", "neq") else (op, tuple(xs) if op != "range" else (min(xs), max(xs)))
    return ("ace", a["permit"], a["proto"], tuple(a["src"]), tuple(a["dst"]), pset(a["sport"]), pset(a["dport"]),
            tuple(sorted(a["flags"])))


def _split_eq(r):
    if r[0] != "ace":
        return [r]
    a = r[2]
    s_list = [None] if not a["sport"] else ([("eq", [x]) for x in a["sport"][1]] if a["sport"][0] == "eq" else
                                             ([("neq", [x]) for x in a["sport"][1]] if a["sport"][0] == "neq" else [a["sport"]]))
    d_list = [None] if not a["dport"] else ([("eq", [x]) for x in a["dport"][1]] if a["dport"][0] == "eq" else
                                             ([("neq", [x]) for x in a["dport"][1]] if a["dport"][0] == "neq" else [a["dport"]]))
    out = []
    for s in s_list:
        for d in d_list:
            out.append(("ace", r[1], dict(a, sport=s, dport=d)))
    return out


def _covers(top, bot):
    """packet set of bot inside packet set of top (both group-free), same action"""
    t, b = top[2], bot[2]
    if t["permit"] != b["permit"]:
        return False
    if t["proto"] != 0 and t["proto"] != b["proto"]:
        return False
    for f in ("src", "dst"):
        if not ag.subset(b[f][0], b[f][1], t[f][0], t[f][1]):
            return False
    for f in ("sport", "dport"):
        if t[f] is None:
            continue
        if b[f] is None:
            return False
        if not cr.port_set(b[f]) <= cr.port_set(t[f]):
            return False
    # TCP flags are match-any (DESIGN 5): a top entry with flags covers a bottom entry whose (non-empty) flag set
    # is contained in its own; a top entry without flags covers everything
    if not t["flags"]:
        return True
    return bool(b["flags"]) and set(b["flags"]) <= set(t["flags"])


def _regroup(rules, by):
    buckets, cur = {"": []}, ""
    for r in rules:
        if r[0] == "remark" and r[2].startswith(by):
            cur = r[2]
            if cur not in buckets:
                buckets[cur] = [r]
            continue
        buckets[cur].append(r)
    return [v for v in buckets.values() if v]


class Ref:
    """the reference model: an ordered list of blocks.  A block is a single rule (an entry standing directly in
    the ACL) or a group of rules built by group_by; a group carries a name and a number of its own (set by
    resequence to the number of its last rule; a re-built group of the same name keeps it, a new one has 0)"""

    def __init__(self, lines, plat):
        self.plat = plat
        self.blocks = [self._single(_rule_of(l, plat)) for l in lines]
        self.by = ""

    @staticmethod
    def _single(r):
        return {"grp": False, "name": None, "seq": r[1], "rules": [r]}

    def flat(self):
        return [r for b in self.blocks for r in b["rules"]]

    def _regroup(self, rules, keep=True):
        """what every assignment of items does to an ACL with group_by"""
        if not self.by:
            self.blocks = [self._single(r) for r in rules]
            return
        old = {b["name"]: b["seq"] for b in self.blocks if b["grp"]} if keep else {}
        buckets, cur = {"": []}, ""
        for r in rules:
            if r[0] == "remark" and r[2].startswith(self.by):
                cur = r[2]
                if cur not in buckets:
                    buckets[cur] = [r]
                continue
            buckets[cur].append(r)
        self.blocks = [{"grp": True, "name": k, "seq": old.get(k, 0), "rules": v} for k, v in buckets.items() if v]

    def apply(self, op, norm=None):
        k = op[0]
        if k == "platform":
            if op[1] == "nxos":
                for b in self.blocks:
                    b["rules"] = [x for r in b["rules"] for x in _split_eq(r)]
                # the split entries are assigned back: loose entries are replaced one by one, a grouped ACL re-groups
                if self.by:
                    self._regroup(self.flat())
                else:
                    self.blocks = [self._single(r) for r in self.flat()]
            self.plat = op[1]
        elif k == "ungroup_ports":
            for b in self.blocks:
                b["rules"] = [x for r in b["rules"] for x in _split_eq(r)]
            if self.by:
                self._regroup(self.flat())
            else:
                self.blocks = [self._single(r) for r in self.flat()]
        elif k in ("port_nr", "protocol_nr", "type_ext", "copy", "import_uuid"):
            if self.by:
                self._regroup(self.flat())
        elif k == "reparse":
            self.by = ""
            self._regroup(self.flat())
        elif k == "group":
            if op[1]:
                self.by = op[1]
                self._regroup(self.flat())
        elif k == "ungroup":
            self.by = ""
            self._regroup(self.flat())
        elif k == "reverse":
            self.blocks.reverse()
        elif k == "pop":
            self.blocks.pop(op[1])
        elif k == "insert":
            # the new entry in the library's own normal spelling (parsing one line is C01's business)
            self.blocks.insert(op[1], self._single(_rule_of(norm(op[2]) if norm else op[2], self.plat)))
        elif k == "resequence":
            n, step = op[1], (op[2] if op[1] else 0)
            for bi, b in enumerate(self.blocks):
                nb = []
                for ri, r in enumerate(b["rules"]):
                    nb.append((r[0], n, r[2]))
                    last_of_block = ri == len(b["rules"]) - 1
                    if not last_of_block:
                        n += step
                b["rules"] = nb
                b["seq"] = n
                if bi != len(self.blocks) - 1:
                    n += step
        elif k == "sort":
            self.blocks.sort(key=lambda b: b["seq"])
        elif k == "delete_shadow":
            rules = self.flat()
            aces = [(i, r) for i, r in enumerate(rules) if r[0] == "ace"]
            drop = set()
            for x, (i, top) in enumerate(aces):
                for (j, bot) in aces[x + 1:]:
                    if _covers(top, bot):
                        drop.add(j)
            if drop:        # the result is assembled in a copy that was ungrouped: its groups are new ones
                self._regroup([r for i, r in enumerate(rules) if i not in drop], keep=False)
        else:
            raise KeyError(k)
        for b in self.blocks:       # a single entry's number is its own
            if not b["grp"]:
                b["seq"] = b["rules"][0][1]


def _impl_rules(a, plat):
    lines = [s.strip() for s in a.line.split("\n")[1:] if s.strip()]
    return [_rule_of(l, plat) for l in lines]


def check_history(ca, spec, fresh_check=True):
    """the three clauses of C17 on the implementation alone -> failure dict or None"""
    try:
        a = ops.build(ca, spec)
    except Exception:  # noqa
        return None
    plat = spec["platform"]
    try:
        ref = Ref([s.strip() for s in a.line.split("\n")[1:] if s.strip()], plat)
    except cr.ReadError as ex:
        return {"what": f"initial ACL text is not valid {plat} syntax for the independent reader: {ex}", "step": -1}
    for i, op in enumerate(spec["ops"]):
        # clause 3: the same operation on a freshly built equal object
        twin = None
        if fresh_check and op[0] not in ("copy", "import_uuid", "reparse"):
            try:
                twin = ca.Acl(a.line, platform=a.platform, port_nr=a.port_nr, protocol_nr=a.protocol_nr)
                if a.group_by:
                    twin.group(a.group_by)
                if [o.sequence for o in twin.items] != [o.sequence for o in a.items]:
                    twin = None      # block numbers are state of their own (set by resequence), not text
            except Exception:  # noqa
                twin = None
        try:
            a = ops.apply_op(ca, a, op)
        except Exception as ex:  # noqa
            if known_exception(op, ex, a):
                return None
            return {"what": f"step {i} {op}: raised {type(ex).__name__}: {str(ex)[:140]}", "step": i,
                    "exc": type(ex).__name__}
        plat = a.platform
        # clause 1: the text parses back to itself
        try:
            again = ca.Acl(a.line, platform=a.platform, port_nr=a.port_nr, protocol_nr=a.protocol_nr)
            if again.line != a.line:
                return {"what": f"step {i} {op}: the text does not parse back to itself: {a.line!r} -> {again.line!r}", "step": i}
        except Exception as ex:  # noqa
            return {"what": f"step {i} {op}: the rendered text is rejected: {type(ex).__name__}: {str(ex)[:120]}", "step": i}
        # clause 2: the rule list is the predicted one
        try:
            ref.apply(op, norm=lambda t, a=a: ca.Ace(t, platform=a.platform).line)
            got = _impl_rules(a, plat)
        except cr.ReadError as ex:
            return {"what": f"step {i} {op}: text not valid {plat} syntax: {ex}", "step": i}
        want = ref.flat()
        if [_sem(r) for r in got] != [_sem(r) for r in want] or [r[1] for r in got] != [r[1] for r in want]:
            k = next((j for j, (x, y) in enumerate(itertools.zip_longest(got, want))
                      if x is None or y is None or _sem(x) != _sem(y) or x[1] != y[1]), 0)
            return {"what": f"step {i} {op}: rule {k} differs from the reference prediction "
                            f"(lines now: {[s.strip() for s in a.line.split(chr(10))[1:]][max(0, k - 1):k + 2]})", "step": i}
        # clause 3
        if twin is not None:
            try:
                twin = ops.apply_op(ca, twin, op)
                if twin.line != a.line:
                    return {"what": f"step {i} {op}: the result depends on the history: {a.line!r} after the history, "
                                    f"{twin.line!r} on a freshly built equal object", "step": i}
            except Exception as ex:  # noqa
                return {"what": f"step {i} {op}: fails on a freshly built equal object only: {type(ex).__name__}", "step": i}
    return None


def known_exception(op, ex, a):
    """exceptions that are the documented answer of the operation (not failures of C17), and the listed
    finding N11 of C02 (AceGroup.platform='nxos' on a multi-entry IOS group raises ValueError), which the model
    reproduces and C02 reports"""
    if op == ["platform", "nxos"] and isinstance(ex, ValueError) and getattr(a, "group_by", "") and a.platform in ("ios", "nxos"):
        import traceback
        frames = [(os.path.basename(fr.filename), fr.name) for fr in traceback.extract_tb(ex.__traceback__)]
        if ("ace_group.py", "platform") in frames:
            return True
    if op[0] == "resequence" and isinstance(ex, ValueError):
        return True        # number range exhausted / refused arguments
    if op[0] == "delete_shadow" and isinstance(ex, TypeError):
        return True        # non-contiguous wildcards cannot be compared (documented, skip=[...] avoids it)
    return False


# ------------------------------------------------------------------ the check
def correspond(ctx):
    ca = core.impl_module()
    rnd = random.Random(ctx.seed)
    n = 220 if ctx.tier == "quick" else 1500
    specs = [ops.gen_history(rnd, ca, ops.ALL_OPS, rnd.randint(1, 8)) for _ in range(n)]
    # all histories up to a bounded length from the seed ACLs: length <= 2 over the 14 operations (quick: half of
    # the second layer), thorough additionally length 3 over a 9-operation sub-alphabet
    exh = 0
    sub9 = [o for o in EXH_OPS if o[0] in ("platform", "port_nr", "resequence", "group", "ungroup", "sort", "copy",
                                             "delete_shadow", "ungroup_ports")][:9]
    layers = [(1, EXH_OPS), (2, EXH_OPS)] + ([(3, sub9)] if ctx.tier != "quick" else [])
    for seed_acl in SEED_ACLS:
        for d, alphabet in layers:
            for combo in itertools.product(alphabet, repeat=d):
                if d == 2 and ctx.tier == "quick" and rnd.random() < 0.5:
                    continue            # quick: half of the second layer (the thorough tier takes all)
                spec = dict(seed_acl, ops=[list(o) for o in combo])
                if not _sort_modelled(ca, spec):
                    continue            # sort() with equal sequence numbers is outside the model (DESIGN 6 C17)
                specs.append(spec)
                exh += 1
    # directed: an assignment that does not change the value still rebuilds (and re-groups) the ACL - the state
    # before it is one a rebuild would normalise (a leading block without heading moved by reverse())
    body0 = ["permit icmp any any", "remark = B1", "permit tcp any any eq 80", "remark = B2, x",
             "permit udp any any eq 53", "deny ip any any"]
    for plat in ("ios", "nxos"):
        for pn in (False, True):
            for prn in (False, True):
                for same in (["port_nr", pn], ["protocol_nr", prn], ["platform", plat], ["type_ext"]):
                    for tail in ([["reverse"]], [["ungroup"]], [["reverse"], ["ungroup"]]):
                        specs.append({"platform": plat, "port_nr": pn, "protocol_nr": prn, "body": list(body0),
                                      "ops": [["group", "= "], ["reverse"], list(same)] + [list(t) for t in tail]})
    cases = ops.cases_for(ca, specs)
    ctx.samples += [specs[0], specs[-1]]
    dist, ok_steps = {}, 0
    nontrivial = set()
    for s, c in zip(specs, cases):
        for o in s["ops"]:
            dist[o[0]] = dist.get(o[0], 0) + 1
        good = sum(1 for x in c.impl[1:] if not isinstance(x, core.Err)) if isinstance(c.impl, list) else 0
        ok_steps += good
        if good >= 2:
            nontrivial.add(repr((s["body"], s["ops"])))
    ctx.coverage["input_distribution"] = {"random_histories": n, "exhaustive_histories": exh, "operations": dist,
                                          "successful_steps": ok_steps}
    ctx.coverage["distinct_nontrivial"] = len(nontrivial)
    core.eval_cases(ctx, "K-history", ops.IMPORTS, cases, chunk=max(5, len(cases) // 32 + 1))
    # how many explored histories lie inside the class of the certificate-free theorem C17_history_checked?
    in_class = core.count_true(ctx, "K-history-class", core.CLASS_IMPORTS,
                               [ops.class_expr(s) for s in specs], chunk=max(5, len(specs) // 32 + 1))
    ctx.coverage["histories_in_class_of_C17_history_checked"] = in_class
    ctx.coverage["histories_total"] = len(specs)
    for s in specs:
        f = check_history(ca, s)
        if f and not matches_known(ctx, "K-history", s, f):
            raise core.ImplViolation(dict(kind="input", kernel="K-history", input=dict(s, k="history"), failure=f))


def _sort_modelled(ca, spec):
    try:
        a = ops.build(ca, spec)
        for op in spec["ops"]:
            if op[0] == "sort":
                seqs = [o.sequence for o in a.items]
                if len(set(seqs)) != len(seqs):
                    return False
            a = ops.apply_op(ca, a, op)
    except Exception:  # noqa
        pass
    return True


def oracle(ctx, kernel, meta):
    ca = core.impl_module()
    if meta.get("k") != "history":
        return None
    # shortest failing prefix
    for n in range(1, len(meta["ops"]) + 1):
        f = check_history(ca, dict(meta, ops=meta["ops"][:n]))
        if f:
            f["prefix"] = n
            return f
    return None


def search(ctx):
    return None


def known_lines(ctx):
    return []


def matches_known(ctx, kernel, meta, failure):
    return None
