"""C17 - any sequence of public operations keeps an ACL consistent with a reference model."""
from __future__ import annotations

import random

from harness import core
from harness.kernels import ops

LEVEL = "proof"
MODEL_TARGETS = ["run/RunOps.vo"]
RULE = "histories"


def correspond(ctx):
    ca = core.impl_module()
    rnd = random.Random(ctx.seed)
    n = 300 if ctx.tier == "quick" else 6000
    specs = [ops.gen_history(rnd, ca, ops.ALL_OPS, rnd.randint(1, 8)) for _ in range(n)]
    cases = ops.cases_for(ca, specs)
    core.eval_cases(ctx, "K-history", ops.IMPORTS, cases, chunk=max(5, len(cases) // 16 + 1))


def oracle(ctx, kernel, meta):
    return None


def search(ctx):
    return None


def known_lines(ctx):
    return []


def matches_known(ctx, kernel, meta, failure):
    return None
