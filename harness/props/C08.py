"""C08 - port operators denote exactly the Cisco port sets; views write back losslessly."""
from __future__ import annotations

import random

from harness import core
from harness.core import Case, coq_bool, coq_list, coq_str, outcome

LEVEL = "proof"
MODEL_TARGETS = ["run/RunPorts.vo"]
RULE = ("Port(line, protocol, platform, version, port_nr) for all 5 operators with operands from the boundary grid "
        "{0,1,2,3,255,256,257,65533,65534,65535,65536} and seeded random operands (eq/neq with 1..10 operands, "
        "names and numbers, repeated operands), invalid operand counts/operators/names; then sequences of up to 3 "
        "assignments through items/ports/sport (self-assignments and foreign values) and platform changes; "
        "ports_to_string / string_to_ports on random run-structured subsets and malformed strings. "
        "Non-trivial = uses a view assignment, a boundary operand, a name, or yields an error.")

GRID = [0, 1, 2, 3, 255, 256, 257, 65533, 65534, 65535, 65536]
PLATS = {"asa": "Asa", "ios": "Ios", "nxos": "Nxos"}


def ivs(ports):
    ports = list(ports)
    out = []
    if ports:
        lo = hi = ports[0]
        for x in ports[1:]:
            if x == hi + 1:
                hi = x
            elif x == hi:
                pass
            else:
                out.append([lo, hi])
                lo = hi = x
        out.append([lo, hi])
    return [len(ports), out]


def obs(p):
    items = list(p.items)
    vit = [0, items] if len(items) <= 40 else [1, ivs(items)]
    return [p.operator, vit, ivs(p.ports), p.sport if len(p.sport) <= 300 else "<long>",
            p.line if len(p.line) <= 300 else "<long>"]


def coq_ops(ops):
    out = []
    for o in ops:
        k = o[0]
        if k in ("SelfItems", "SelfPorts", "SelfSport"):
            out.append(k)
        elif k in ("PutItems", "PutPorts"):
            out.append(f"{k} " + coq_list(str(i) for i in o[1]))
        elif k == "PutSport":
            out.append(f"PutSport {coq_str(o[1])}")
        elif k == "PutPlatform":
            out.append(f"PutPlatform {PLATS[o[1]]}")
        elif k == "PutLine":
            out.append("PutLine " + coq_list(coq_str(t) for t in o[1].split()))
    return coq_list(out)


def apply_ops(p, ops):
    for o in ops:
        k = o[0]
        if k == "SelfItems":
            p.items = p.items
        elif k == "SelfPorts":
            p.ports = p.ports
        elif k == "SelfSport":
            p.sport = p.sport
        elif k == "PutItems":
            p.items = list(o[1])
        elif k == "PutPorts":
            p.ports = list(o[1])
        elif k == "PutSport":
            p.sport = o[1]
        elif k == "PutPlatform":
            p.platform = o[1]
        elif k == "PutLine":
            p.line = o[1]
    return p


def run_impl(ca, meta):
    def f():
        p = ca.Port(meta["line"], protocol=meta["protocol"], platform=meta["platform"],
                    version=meta["version"], port_nr=meta["port_nr"])
        apply_ops(p, meta["ops"])
        return obs(p)
    return outcome(f)


def model_expr(meta):
    v15 = meta["version"].startswith("15")
    toks = coq_list(coq_str(t) for t in meta["line"].split())
    return (f"run_port {coq_bool(meta['port_nr'])} {coq_str(meta['protocol'])} {PLATS[meta['platform']]} "
            f"{coq_bool(v15)} {toks} {coq_ops(meta['ops'])}")


def gen_cases(ctx, ca):
    from cisco_acl import port_name as pn
    rnd = random.Random(ctx.seed)
    metas = []
    quick = ctx.tier == "quick"

    def m(line, ops=(), protocol="tcp", platform="ios", version="0", port_nr=False):
        metas.append({"k": "port", "line": line, "protocol": protocol, "platform": platform, "version": version,
                      "port_nr": port_nr, "ops": [list(o) for o in ops]})

    # corpus: the repaired defects first
    for ln, view in [("lt 5", "SelfPorts"), ("lt 2", "SelfPorts"), ("lt 1", "SelfPorts"), ("gt 65535", "SelfPorts"),
                     ("range 250 260", "SelfSport"), ("gt 65535", "SelfSport"), ("lt 1", "SelfSport"),
                     ("range 21 20", "SelfPorts"), ("range 65535 1024", "SelfItems")]:
        m(ln, [(view,)])
    selfs = [("SelfItems",), ("SelfPorts",), ("SelfSport",)]
    # every operand count 0..12 for eq / neq on every platform (IOS accepts lists, NX-OS / ASA one operand),
    # and ranges whose decimal spellings sort differently from their values (9-10, 80-443, 99-1000)
    for op in ("eq", "neq"):
        for cnt in range(0, 13):
            xs = [1, 22, 80, 443, 1024, 3000, 8080, 9, 10, 65535, 99, 1000, 7][:cnt]
            for plat_ in ("ios", "nxos", "asa"):
                m(" ".join([op] + [str(x) for x in xs]), platform=plat_)
            if op == "eq":
                m(" ".join([op] + [str(x) for x in xs]), [("SelfSport",)])
    for a, b in [(9, 10), (80, 443), (99, 1000), (81, 65535), (443, 1024), (1, 79), (5, 5), (10, 9)]:
        for s in selfs:
            m(f"range {a} {b}", [s])
        m(f"eq {a} {b}", [("SelfSport",)])
        m(f"neq {a} {b}", [("SelfItems",)])
    # single-operand operators over the grid, every view
    for op in ("gt", "lt", "eq", "neq"):
        for x in GRID:
            m(f"{op} {x}")
            for s in selfs:
                if op == "neq" and s[0] != "SelfItems" and (quick and x not in (1, 65535, 256)):
                    continue  # neq write-back through ports costs seconds in the implementation
                m(f"{op} {x}", [s])
    for a in GRID:
        for b in (GRID if not quick else rnd.sample(GRID, 4)):
            m(f"range {a} {b}")
            m(f"range {a} {b}", [rnd.choice(selfs)])
    names = {p: sorted(pn.PortName(p, "ios", "0").names()) for p in ("tcp", "udp")}
    n_rand = 250 if quick else 4000
    for _ in range(n_rand):
        proto = rnd.choice(["tcp", "udp", "tcp", "", "icmp", "6", "17"])
        plat = rnd.choice(["ios", "ios", "nxos", "asa"])
        ver = rnd.choice(["0", "15", "16"])
        op = rnd.choice(["eq", "neq", "gt", "lt", "range", "eq", "ge", "EQ"])
        cnt = {"eq": rnd.randint(1, 10), "neq": rnd.randint(1, 5), "gt": 1, "lt": 1, "range": 2}.get(op, 1)
        if rnd.random() < 0.1:
            cnt = rnd.choice([0, cnt + 1, 3])
        if plat != "ios" and op in ("eq", "neq") and rnd.random() < 0.8:
            cnt = 1
        operands = []
        for _ in range(cnt):
            r = rnd.random()
            if r < 0.25 and proto in ("tcp", "udp"):
                operands.append(rnd.choice(names[proto] + ["nosuch"]))
            elif r < 0.45:
                operands.append(str(rnd.choice(GRID)))
            elif r < 0.55 and operands:
                operands.append(operands[0])
            else:
                operands.append(str(rnd.randint(1, 65535)))
        ops = []
        cur = op           # operator currently held by the object: neq write-back through ports costs O(n^2)
        for _ in range(rnd.choice([0, 1, 1, 2, 3])):
            r = rnd.random()
            if cur == "neq" and not (r < 0.6 or 0.8 <= r < 0.9):
                r = 0.0
            if r < 0.5:
                s = rnd.choice(selfs)
                if cur == "neq" and s[0] != "SelfItems":
                    s = ("SelfItems",)
                ops.append(s)
            elif r < 0.6:
                ops.append(("PutItems", [rnd.choice(GRID + [rnd.randint(1, 65535)]) for _ in range(rnd.randint(0, 3))]))
            elif r < 0.7 and cur != "neq":
                base = rnd.randint(1, 65000)
                ops.append(("PutPorts", sorted({base + rnd.randint(0, 6) for _ in range(rnd.randint(0, 4))})))
            elif r < 0.8 and cur != "neq":
                ops.append(("PutSport", rnd.choice(["1-3", "5", "1,3-5", "", "7-7", "9-8", "0-2", "65534-65536", "a",
                                                     "1,,2", "10-12,11-14", "3-5,1"])))
            elif r < 0.9:
                ops.append(("PutPlatform", rnd.choice(["ios", "nxos", "asa"])))
            else:
                ln = rnd.choice(["eq 1", "", "range 5 1", "gt www", "neq 7", "lt 70000"])
                ops.append(("PutLine", ln))
                cur = ln.split()[0] if ln else cur
        m(" ".join([op] + operands), ops, proto, plat, ver, rnd.random() < 0.3)
    return metas


def correspond(ctx):
    ca = core.impl_module()
    from cisco_acl import helpers as h
    rnd = random.Random(ctx.seed + 7)
    metas = gen_cases(ctx, ca)
    cases, nontrivial = [], set()
    for meta in metas:
        impl = run_impl(ca, meta)
        cases.append(Case(model_expr(meta), impl, meta))
        if meta["ops"] or isinstance(impl, core.Err) or any(str(g) in meta["line"].split() for g in GRID) \
                or any(not t.isdigit() for t in meta["line"].split()[1:]):
            nontrivial.add(repr(meta))
    # codec
    n = 150 if ctx.tier == "quick" else 3000
    for _ in range(n):
        s = set()
        for _ in range(rnd.randint(0, 6)):
            a = rnd.choice([1, 2, 65535, 65534, rnd.randint(1, 65535)])
            s.update(range(a, min(a + rnd.choice([0, 0, 1, 2, 5, 40]), 65535) + 1))
        lst = list(s)
        rnd.shuffle(lst)
        if rnd.random() < 0.2 and lst:
            lst.append(lst[0])
        meta = {"k": "p2s", "ports": lst}
        cases.append(Case("run_p2s " + coq_list(str(i) for i in lst), outcome(lambda: h.ports_to_string(lst)), meta))
        nontrivial.add(repr(sorted(lst)))
        st = h.ports_to_string(lst)
        if rnd.random() < 0.4:
            parts = st.split(",") + rnd.choice([[""], ["x"], ["5-"], ["-5"], ["3-1"], ["1-2-3"], ["0"], ["65536"],
                                                ["65530-70000"], ["007"], [" 5"], ["2-2"]])
            rnd.shuffle(parts)
            st = ",".join(parts)
        meta = {"k": "s2p", "string": st}
        cases.append(Case(f"run_s2p {coq_str(st)}", outcome(lambda: ivs(h.string_to_ports(st))), meta))
        nontrivial.add(repr(meta))
    ctx.samples += [metas[0], metas[len(metas) // 2], metas[-1], cases[-1].meta]
    ctx.coverage["distinct_nontrivial"] = len(nontrivial)
    from collections import Counter
    ctx.coverage["input_distribution"] = {
        "port_objects": len(metas), "codec": 2 * n,
        "operators": dict(Counter(m_["line"].split()[0] if m_["line"] else "" for m_ in metas)),
        "with_view_ops": sum(1 for m_ in metas if m_["ops"]),
        "error_outcomes": sum(1 for c in cases if isinstance(c.impl, core.Err))}
    core.eval_cases(ctx, "K-port", ["gen.Tables", "model.Cfg", "model.Names", "model.Ports", "run.RunPorts"],
                    cases, chunk=60)


# ------------------------------------------------------------------ independent oracle
def sem(op, xs):
    if op == "eq":
        return set(xs)
    if op == "neq":
        return set(range(1, 65536)) - set(xs)
    if op == "lt":
        return set(range(1, xs[0]))
    if op == "gt":
        return set(range(xs[0] + 1, 65536))
    if op == "range":
        return set(range(min(xs), max(xs) + 1))
    raise ValueError(op)


def oracle(ctx, kernel, meta):
    ca = core.impl_module()
    from cisco_acl import helpers as h
    if meta.get("k") == "p2s" or meta.get("k") == "s2p":
        lst = meta.get("ports")
        if lst is None:
            return None
        good = [p for p in lst if 1 <= p <= 65535]
        try:
            back = h.string_to_ports(h.ports_to_string(good))
        except Exception as ex:  # noqa
            return {"what": f"codec raised {type(ex).__name__} on {good[:20]}"}
        if back != sorted(set(good)):
            return {"what": f"range-string codec does not decode to the encoded set for {sorted(good)[:20]}"}
        return None
    if meta.get("k") != "port":
        return None
    toks = meta["line"].split()
    if not toks or toks[0] not in ("eq", "neq", "gt", "lt", "range"):
        return None
    if meta["protocol"] not in ("tcp", "udp"):
        return None
    # only the C08 domain: numeric/known operands in 1..65535, right operand count, no repeats
    try:
        p = ca.Port(meta["line"], protocol=meta["protocol"], platform=meta["platform"], version=meta["version"],
                    port_nr=meta["port_nr"])
    except Exception as ex:  # noqa
        # inside the domain (numeric operands 1..65535, no repeats, 1..10 operands for eq/neq on IOS, one on
        # NX-OS/ASA, one for gt/lt, two for range) every expression denotes a port set: a refusal is a failure
        ops_ = toks[1:]
        numeric = all(t.isdigit() and 1 <= int(t) <= 65535 for t in ops_) and len(set(ops_)) == len(ops_)
        cnt_ok = {"gt": len(ops_) == 1, "lt": len(ops_) == 1, "range": len(ops_) == 2}.get(
            toks[0], 1 <= len(ops_) <= (10 if meta["platform"] == "ios" else 1))
        if numeric and cnt_ok:
            return {"what": f"{meta['line']!r} ({meta['platform']}) is a valid port expression but was refused: "
                            f"{type(ex).__name__}: {str(ex)[:100]}"}
        return None
    xs = list(p.items)
    if any(not 1 <= x <= 65535 for x in xs) or len(set(xs)) != len(xs):
        return None
    want = sem(toks[0], xs)
    if set(p.ports) != want or list(p.ports) != sorted(want):
        return {"what": f"{meta['line']!r}: port set differs from the Cisco meaning "
                        f"(got {ivs(p.ports)}, expected {ivs(sorted(want))})"}
    if h.string_to_ports(p.sport) != sorted(want):
        return {"what": f"{meta['line']!r}: range string {p.sport[:60]!r} does not decode to the port set"}
    line0, ports0 = p.line, list(p.ports)
    selfs = [o for o in meta["ops"] if o[0].startswith("Self")]
    views = selfs or [["SelfItems"], ["SelfPorts"], ["SelfSport"]]
    if toks[0] == "neq" and not selfs:
        views = [["SelfItems"]]
    for o in views:
        try:
            apply_ops(p, [o])
        except Exception as ex:  # noqa
            return {"what": f"{meta['line']!r}: {o[0]} raised {type(ex).__name__}: {ex}"}
        if p.line != line0 or list(p.ports) != ports0:
            return {"what": f"{meta['line']!r}: after {o[0]} the expression became {p.line!r}"}
    return None


def search(ctx):
    for op in ("gt", "lt", "eq", "range", "neq"):
        for x in GRID[1:-1]:
            line = f"{op} {x}" if op != "range" else f"range {x} {min(x + 3, 65535)}"
            meta = {"k": "port", "line": line, "protocol": "tcp", "platform": "ios", "version": "0",
                    "port_nr": False, "ops": []}
            f = oracle(ctx, "K-port", meta)
            if f:
                return dict(kind="input", kernel="K-port", input=meta, failure=f)
    return None


def _n2_probe(ca):
    p = ca.Port("eq 1 1", protocol="tcp")
    p.sport = p.sport
    return p.line != "eq 1 1"


def known_lines(ctx):
    out = []
    ca = core.impl_module()
    for f in core.load_findings("C08"):
        if f["status"] == "known" and f["id"] == "N2":
            if _n2_probe(ca):
                out.append(f"{f['id']}: {f['what']}")
            else:
                ctx.notes.append("known finding N2 no longer reproduces")
    return out


def matches_known(ctx, kernel, meta, failure):
    return None
