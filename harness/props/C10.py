"""C10 - resequencing numbers every line start, start+step, ... and changes nothing else."""
from __future__ import annotations

import random

from harness import core
from harness.core import Case, coq_Z, coq_list, outcome

LEVEL = "proof"
MODEL_TARGETS = ["run/RunReseq.vo"]
RULE = ("ACLs / ACE groups / address groups with 0..8 top-level items, each a remark, an ACE or (ACL only) a group of "
        "1..4 lines (plus a few empty groups), any previous numbering; start and step from the boundary set "
        "{-5,-1,0,1,2,10,2^32-3..2^32+1} and values placed so that the last number lands on either side of "
        "4294967295; both platforms. Non-trivial = nested group present, or boundary start/step, or an error "
        "outcome; distinct = distinct (shape, previous numbers, start, step).")

MAXS = 4294967295


def tree_coq(t):
    out = []
    for e in t:
        if e[0] == "leaf":
            out.append(f"RLeaf {coq_Z(e[1])} {e[2]}%N")
        else:
            out.append(f"RGroup {coq_Z(e[1])} {e[2]}%N {tree_coq(e[3])}")
    return coq_list(out)


def gen_tree(rnd, allow_groups):
    t, nid = [], 0
    for _ in range(rnd.randint(0, 8)):
        if allow_groups and rnd.random() < 0.3:
            sub = []
            gid = nid
            nid += 1
            for _ in range(rnd.choice([1, 1, 2, 3, 4]) if rnd.random() > 0.03 else 0):
                sub.append(("leaf", rnd.choice([0, 0, 10, 20, rnd.randint(0, 5000)]), nid))
                nid += 1
            t.append(("group", rnd.choice([0, 10, 77]), gid, sub))
        else:
            t.append(("leaf", rnd.choice([0, 0, 10, 20, rnd.randint(0, 5000)]), nid))
            nid += 1
    return t


def nleaves(t):
    return sum(1 if e[0] == "leaf" else len(e[3]) for e in t)


def build_acl(ca, plat, t, rnd, dup=0):
    def line(seq, i):
        pre = f"{seq} " if seq else ""
        j = i % dup if dup else i          # dup > 0: only `dup` distinct payloads, so duplicates occur
        return pre + (f"remark r{j}" if j % 3 == 0 else f"permit ip host 10.0.{j % 250}.1 any")
    items = []
    for e in t:
        if e[0] == "leaf":
            items.append(line(e[1], e[2]))
        else:
            g = ca.AceGroup(items=[line(s[1], s[2]) for s in e[3]], platform=plat) if e[3] else ca.AceGroup(platform=plat)
            g.sequence = e[1]
            items.append(g)
    return ca.Acl(name="A", items=items, platform=plat) if items else ca.Acl(name="A", platform=plat)


def observe_acl(acl):
    out = []
    i = 0
    for it in acl.items:
        if it.__class__.__name__ == "AceGroup":
            gid = i
            i += 1
            sub = []
            for s in it.items:
                sub.append([core.Z(s.sequence), i])
                i += 1
            out.append([core.Z(it.sequence), gid, sub])
        else:
            out.append([core.Z(it.sequence), i])
            i += 1
    return out


def pick_args(rnd, n):
    bounds = [-5, -1, 0, 1, 2, 10, MAXS - 3, MAXS - 2, MAXS - 1, MAXS, MAXS + 1, MAXS + 2]
    start = rnd.choice(bounds + [10, 10, 100, rnd.randint(1, 10 ** 6)])
    step = rnd.choice([-1, 0, 1, 1, 2, 10, 10, 1000, rnd.randint(1, 10 ** 5)])
    if n > 1 and rnd.random() < 0.35:  # place the last number next to the limit
        step = rnd.choice([1, 2, 10, 1000])
        start = MAXS - step * (n - 1) + rnd.choice([-1, 0, 1])
    return start, step


def _prelim(o, pre, start, step):
    """an earlier resequence on the same object (so that the previous numbers are the ones a renumbering left)"""
    if pre:
        pre = tuple(pre)
        try:
            last0 = o.resequence(*pre)
            if pre == (start, step) and isinstance(last0, int) and 0 < last0 <= MAXS:
                o.resequence(last0, step if step >= 1 else 1)
        except Exception:  # noqa
            pass


def correspond(ctx):
    ca = core.impl_module()
    rnd = random.Random(ctx.seed)
    n = 500 if ctx.tier == "quick" else 10000
    cases, nontrivial = [], set()
    for i in range(n):
        plat = rnd.choice(["ios", "nxos"])
        kind = rnd.choice(["acl", "acl", "acl", "aceg", "addrgroup"])
        t = gen_tree(rnd, kind == "acl")
        start, step = pick_args(rnd, nleaves(t))
        if any(e[0] == "group" and not e[3] for e in t):
            # an empty nested group restarts on the whole list (outside the property's quantifier):
            # keep the numbers small so that the recursion limit, not the overflow check, ends it
            start, step = rnd.choice([0, 1, 10]), rnd.choice([1, 10])
        dup = rnd.choice([0, 0, 1, 2, 3])
        pre = rnd.choice([None, None, (10, 10), (start, step), (1, 1)])   # an earlier resequence on the same object
        meta = {"k": kind, "platform": plat, "tree": t, "start": start, "step": step, "dup": dup, "pre": pre}

        def run(kind=kind, t=t, plat=plat, start=start, step=step, dup=dup, pre=pre):
            prelim = lambda o: _prelim(o, pre, start, step)
            if kind == "acl":
                o = build_acl(ca, plat, t, rnd, dup)
                prelim(o)
                last = o.resequence(start, step)
                return [core.Z(last), observe_acl(o)]
            if kind == "aceg":
                lines = [(f"{e[1]} " if e[1] else "") + f"permit ip host 10.1.{e[2] % dup if dup else e[2]}.1 any" for e in t]
                o = ca.AceGroup(items=lines, platform=plat) if lines else ca.AceGroup(platform=plat)
                prelim(o)
                last = o.resequence(start, step)
                return [core.Z(last), [[core.Z(x.sequence), j] for j, x in enumerate(o.items)]]
            lines = [f"host 10.2.{e[2] % dup if dup else e[2]}.1" for e in t]
            if not lines:
                lines = ["host 10.2.0.1"]
            o = ca.AddrGroup(name="G", items=lines, platform=plat)
            for x, e in zip(o.items, t):
                x.sequence = e[1]
            prelim(o)
            last = o.resequence(start, step)
            return [core.Z(last), [[core.Z(x.sequence), j] for j, x in enumerate(o.items)]]
        tt = t if (kind != "addrgroup" or t) else [("leaf", 0, 0)]
        cases.append(Case(f"run_resequence {coq_Z(start)} {coq_Z(step)} {tree_coq(tt)}", outcome(run), meta))
        if any(e[0] == "group" for e in t) or abs(start) > 10 ** 9 or start <= 0 or step <= 0 \
                or isinstance(cases[-1].impl, core.Err):
            nontrivial.add(repr((t, start, step)))
    ctx.samples += [cases[0].meta, cases[len(cases) // 2].meta, cases[-1].meta]
    ctx.coverage["distinct_nontrivial"] = len(nontrivial)
    from collections import Counter
    ctx.coverage["input_distribution"] = {
        "kinds": dict(Counter(c.meta["k"] for c in cases)),
        "errors": dict(Counter(c.impl.kind for c in cases if isinstance(c.impl, core.Err))),
        "with_groups": sum(1 for c in cases if any(e[0] == "group" for e in c.meta["tree"]))}
    core.eval_cases(ctx, "K-reseq", ["gen.Tables", "model.Reseq", "run.RunReseq"], cases, chunk=100)


def oracle(ctx, kernel, meta):
    ca = core.impl_module()
    t, start, step, plat = meta["tree"], meta["start"], meta["step"], meta["platform"]
    t = [tuple(e[:3]) + ((tuple(tuple(s) for s in e[3]),) if e[0] == "group" else ()) for e in t]
    if any(e[0] == "group" and not e[3] for e in t):
        return None
    if meta["k"] != "acl":
        dup = meta.get("dup", 0)
        n = max(len(t), 1) if meta["k"] == "addrgroup" else len(t)
        if meta["k"] == "addrgroup":
            lines = [f"host 10.2.{e[2] % dup if dup else e[2]}.1" for e in t] or ["host 10.2.0.1"]
            o = ca.AddrGroup(name="G", items=lines, platform=plat)
            for x, e in zip(o.items, t):
                x.sequence = e[1]
        else:
            lines = [(f"{e[1]} " if e[1] else "") + f"permit ip host 10.1.{e[2] % dup if dup else e[2]}.1 any" for e in t]
            o = ca.AceGroup(items=lines, platform=plat) if lines else ca.AceGroup(platform=plat)
        _prelim(o, meta.get("pre"), start, step)
        try:
            last = o.resequence(start, step)
        except Exception:  # noqa
            return None
        seqs = [x.sequence for x in o.items]
        want = [start + step * i for i in range(n)] if start else [0] * n
        if seqs != want or (n and last != want[-1]):
            return {"what": f"{meta['k']} lines {lines}: numbers {seqs} returned {last}, expected {want}"}
        return None
    rnd = random.Random(1)
    acl = build_acl(ca, plat, t, rnd, meta.get("dup", 0))
    _prelim(acl, meta.get("pre"), start, step)
    before = [o.line.split(" ", 1)[1] if o.sequence else o.line for o in _flat(acl)]
    n = nleaves(t)
    try:
        last = acl.resequence(start, step)
    except ValueError:
        ok_err = (not 0 <= start <= MAXS) or (start > 0 and step < 1) or (start > 0 and start + step * max(n - 1, 0) > MAXS)
        return None if ok_err else {"what": f"resequence({start},{step}) raised although arguments and last number are in range"}
    except Exception as ex:  # noqa
        return {"what": f"resequence raised {type(ex).__name__}"}
    if (not 0 <= start <= MAXS) or (start > 0 and step < 1):
        return {"what": f"resequence({start},{step}) accepted invalid arguments"}
    seqs = [o.sequence for o in _flat(acl)]
    want = [start + step * i for i in range(n)] if start else [0] * n
    if seqs != want:
        return {"what": f"lines carry {seqs}, expected {want}"}
    if n and last != want[-1]:
        return {"what": f"returned {last}, last number is {want[-1]}"}
    if any(s > MAXS for s in seqs) or last > MAXS:
        return {"what": f"a number above 4294967295 was left behind: {max(seqs + [last])}"}
    after = [o.line.split(" ", 1)[1] if o.sequence else o.line for o in _flat(acl)]
    if after != before:
        return {"what": "something other than the numbers changed"}
    return None


def _flat(acl):
    out = []
    for it in acl.items:
        if it.__class__.__name__ == "AceGroup":
            out.extend(it.items)
        else:
            out.append(it)
    return out


def search(ctx):
    rnd = random.Random(ctx.seed + 9)
    for _ in range(400):
        t = gen_tree(rnd, True)
        start, step = pick_args(rnd, nleaves(t))
        meta = {"k": "acl", "platform": "ios", "tree": t, "start": start, "step": step}
        f = oracle(ctx, "K-reseq", meta)
        if f:
            return dict(kind="input", kernel="K-reseq", input=meta, failure=f)
    return None


def known_lines(ctx):
    return []


def matches_known(ctx, kernel, meta, failure):
    return None
