"""C16 - copy()/data() rebuild an equal, independent object; ids and notes are stable."""
from __future__ import annotations

import copy as pycopy
import random

from harness import core, acegen, addrgen as ag
from harness.kernels import acetext, ops

LEVEL = "proof"
MODEL_TARGETS = ["run/RunOps.vo"]
RULE = ("(1) histories of in-place transformations (platform, type, port_nr / protocol_nr, resequence, sort, reverse, "
        "group / ungroup, ungroup_ports, plus copy and import with identifiers) on generated extended ACLs, flat and "
        "grouped, every object labelled and annotated: model/Ops.v vs implementation, identifiers and notes of the ACL, "
        "its AceGroups and entries after every step; (2) every exported class (Port, Protocol, Option, Wildcard, "
        "Address with and without members, AddressAg, AddrGroup, Remark, Ace with member-carrying addresses, AceGroup, "
        "Acl flat/grouped with input/output/indent): copy() and Class(**data()) equal the source in ==, text and data; "
        "no mutable cell other than the note is reachable from both; a battery of mutations of the copy (and of the "
        "source) leaves the other's data unchanged; in-place setters keep uuid and note of the object and of its "
        "entries / members. Non-trivial = object with members or several entries; distinct = distinct text.")
EVIDENCE_EXTRA = {"explanation": "the heap (aliasing between a copy and its source) has no Gallina counterpart: it is "
                                 "checked on the implementation by an exhaustive reachability walk of both object "
                                 "graphs plus mutate-then-observe histories; identifiers and notes are modelled and "
                                 "proved in coq/model/Ops.v + proofs/OpsProofs.v"}


# ------------------------------------------------------------------ object factory
def _ace_line(rnd, ca, plat, ver="0", light=False):
    a = acegen.rand_ace(rnd, plat, groups=False)
    if light:       # neq / gt / lt ports carry 65k-element lists: keep the many-entry objects cheap to copy
        for f in ("sport", "dport"):
            if a[f] and a[f][0] in ("neq", "gt", "lt"):
                a[f] = ("range", [a[f][1][0], min(65535, a[f][1][0] + 7)])
    return " ".join(acetext.valid_text(rnd, ca, plat, ver, a, rnd.choice([None, 10, 25])))


def _members(rnd, plat, dup=False):
    mem = []
    for _ in range(rnd.randint(1, 4)):
        _, b, m = ag.rand_abstract(rnd, ("host", "prefix", "prefix"))
        if m == ag.ALL:
            m = ag.hostmask(8)
        mem.append(ag.spell_ag(rnd, plat, b, m)[1])
    if dup and mem:
        mem.append(mem[0])           # the same member twice is legal
        if mem[0].startswith("host "):
            ip_ = mem[0].split()[1]
            mem.append(f"{ip_} 255.255.255.255" if plat == "ios" else f"{ip_}/32")
    return mem


def factory(rnd, ca):
    """-> list of (class name, make) ; make() builds a fresh object (deterministic), text for the report"""
    plat = rnd.choice(["ios", "nxos"])
    kw = dict(platform=plat)
    out = []
    p = acegen.rand_port(rnd, plat)
    pt, proto = acegen.port_text(p), rnd.choice(["tcp", "udp"])
    out.append(("Port", lambda: ca.Port(pt, protocol=proto, **kw), pt))
    prt = rnd.choice(["ip", "tcp", "udp", "icmp", "ahp", "255", "6", "0", "41"])
    out.append(("Protocol", lambda: ca.Protocol(prt, **kw), prt))
    opt = rnd.choice(["log", "ack syn log-input", "", "established", "dscp ef log"])
    out.append(("Option", lambda: ca.Option(opt, **kw), opt))
    _, b, m = ag.rand_abstract(rnd)
    wt = f"{ag.ip(b)} {ag.ip(m)}"
    out.append(("Wildcard", lambda: ca.Wildcard(wt, **kw), wt))
    at = ag.spell(rnd, plat, b, m)[1]
    out.append(("Address", lambda: ca.Address(at, **kw), at))
    mem = _members(rnd, plat, dup=rnd.random() < 0.4)
    gkw = "object-group" if plat == "ios" else "addrgroup"
    out.append(("Address+members", lambda: ca.Address(f"{gkw} G", items=list(mem), **kw), f"{gkw} G {mem}"))
    m1 = _members(rnd, plat)[0]
    out.append(("AddressAg", lambda: ca.AddressAg(m1, **kw), m1))
    gh = "object-group network G1" if plat == "ios" else "object-group ip address G1"
    gm = _members(rnd, plat, dup=rnd.random() < 0.3)
    out.append(("AddrGroup", lambda: ca.AddrGroup("\n".join([gh] + gm), **kw), str(gm)))
    rt = rnd.choice(["remark text", "10 remark = C-1, x", "remark a b"])
    out.append(("Remark", lambda: ca.Remark(rt, **kw), rt))
    al = _ace_line(rnd, ca, plat)
    out.append(("Ace", lambda: ca.Ace(al, **kw), al))
    smem, dmem = _members(rnd, plat, dup=rnd.random() < 0.4), _members(rnd, plat)

    def ace_members():
        a = ca.Ace(f"permit ip {gkw} S {gkw} D", **kw)
        for x in smem:
            a.srcaddr.items.append(ca.Address(x, **kw))       # what cisco_acl.acls() does with a config
        a.dstaddr.items = list(dmem)
        return a
    out.append(("Ace+members", ace_members, f"S={smem} D={dmem}"))
    lines = [rnd.choice(["remark = B1", "remark t"]) if rnd.random() < 0.25 else _ace_line(rnd, ca, plat, light=True)
             for _ in range(rnd.randint(1, 5))]
    ncwb = rnd.choice([16, 16, 20, 30, 12])       # the limit of non-contiguous wildcard bits travels with the data
    out.append(("AceGroup", lambda: ca.AceGroup("\n".join(lines), max_ncwb=ncwb, **kw), f"max_ncwb={ncwb} {lines}"))
    head = "ip access-list extended A" if plat == "ios" else "ip access-list A"
    akw = dict(kw, input=["Gi1"], output=["Gi2", "Gi3"], indent=rnd.choice([" ", "  ", "    "]), max_ncwb=ncwb)
    out.append(("Acl", lambda: ca.Acl("\n".join([head] + lines), **akw), f"max_ncwb={ncwb} {lines}"))
    glines = ["remark = B1"] + lines + ["remark = B2"] + lines[:1]
    out.append(("Acl(group_by)", lambda: ca.Acl("\n".join([head] + glines), group_by="= ", **akw), f"max_ncwb={ncwb} {glines}"))

    def acl_members():
        a = ca.Acl(f"{head}\n permit ip {gkw} S any\n permit ip any {gkw} D", **kw)
        for x in smem:
            a.items[0].srcaddr.items.append(ca.Address(x, **kw))
        a.items[1].dstaddr.items = list(dmem)
        return a
    out.append(("Acl+members", acl_members, f"S={smem} D={dmem}"))
    return plat, out


# ------------------------------------------------------------------ generic observations
def _is_ours(o):
    return type(o).__module__.startswith("cisco_acl")


def reach(o, note_ids, seen=None):
    """ids of all mutable cells reachable from o (objects with __dict__, lists, dicts, sets); the note object and
    whatever hangs below it are skipped"""
    seen = {} if seen is None else seen
    stack = [o]
    while stack:
        x = stack.pop()
        if id(x) in seen or id(x) in note_ids:
            continue
        if isinstance(x, (str, bytes, int, float, bool, type(None), frozenset)) or callable(x):
            continue
        if isinstance(x, tuple):
            stack.extend(x)
            continue
        if isinstance(x, (list, set)):
            seen[id(x)] = x
            stack.extend(x)
            continue
        if isinstance(x, dict):
            seen[id(x)] = x
            stack.extend(x.values())
            continue
        if type(x).__module__ == "ipaddress":       # immutable value objects
            continue
        if hasattr(x, "__dict__") and type(x).__module__.split(".")[0] in ("cisco_acl", "netports"):
            seen[id(x)] = x
            stack.extend(vars(x).values())
            # slots / private state of foreign value objects (packaging's Infinity singletons, ...) is not walked
    return seen


def entries(ca, o):
    """the entries / members whose identity the object is responsible for"""
    out = []
    items = getattr(o, "items", None)
    if isinstance(o, (ca.Acl, ca.AceGroup)):
        for it in items:
            out.append(it)
            if isinstance(it, ca.AceGroup):
                out.extend(it.items)
    elif isinstance(o, (ca.AddrGroup, ca.Address)):
        out.extend(items or [])
    elif isinstance(o, ca.Ace):
        out.extend(o.srcaddr.items)
        out.extend(o.dstaddr.items)
    return out


def snapshot(o):
    d = o.data()
    return repr(_strip(d))


def _strip(d):
    if isinstance(d, dict):
        return {k: _strip(v) for k, v in d.items() if k != "uuid"}
    if isinstance(d, list):
        return [_strip(x) for x in d]
    return d


def mutations(ca, o):
    """in-place changes of every kind the public interface offers; each may raise (then it is skipped)"""
    plat_other = "nxos" if o.platform == "ios" else "ios"
    m = [("platform", lambda x: setattr(x, "platform", plat_other)),
         ("note-content", lambda x: None),
         ("line", lambda x: setattr(x, "line", _other_line(ca, x))),
         ("uuid", lambda x: setattr(x, "uuid", "changed")),
         ("version", lambda x: setattr(x, "version", "15.2"))]
    if hasattr(o, "items") and isinstance(getattr(o, "items"), list):
        m.append(("items.pop", lambda x: x.items.pop() if x.items else None))
        m.append(("items.reverse", lambda x: x.items.reverse()))
        m.append(("items[0].line", lambda x: _mutate_first(ca, x)))
        m.append(("items=[]", lambda x: setattr(x, "items", [])))
    for attr in ("port_nr", "protocol_nr"):
        if hasattr(o, attr):
            m.append((attr, lambda x, attr=attr: setattr(x, attr, not getattr(x, attr))))
    if hasattr(o, "sequence"):
        m.append(("sequence", lambda x: setattr(x, "sequence", 77)))
    if hasattr(o, "resequence"):
        m.append(("resequence", lambda x: x.resequence(3, 3)))
    if isinstance(o, ca.Acl):
        m += [("input", lambda x: x.input.append("Gi9")), ("output", lambda x: x.output.clear()),
              ("name", lambda x: setattr(x, "name", "OTHER")), ("group", lambda x: x.group("= ")),
              ("ungroup", lambda x: x.ungroup()), ("indent", lambda x: setattr(x, "indent", ""))]
    if isinstance(o, ca.Ace):
        m += [("srcaddr.line", lambda x: setattr(x.srcaddr, "line", "host 9.9.9.9")),
              ("dstaddr.items.append", lambda x: x.dstaddr.items.append(ca.Address("host 9.9.9.9", platform=x.platform))),
              ("srcaddr.items.clear", lambda x: x.srcaddr.items.clear()),
              ("srcaddr.items[0].line", lambda x: setattr(x.srcaddr.items[0], "line", "host 9.9.9.8") if x.srcaddr.items else None),
              ("option.line", lambda x: setattr(x.option, "line", "log")),
              ("protocol.line", lambda x: setattr(x.protocol, "line", "ip")),
              ("dstport.items", lambda x: setattr(x.dstport, "items", [9]) if x.dstport.operator else None)]
    if isinstance(o, ca.Port):
        # (the ports write-back of neq / gt / lt is quadratic in the library, see N9: only eq / range here)
        m += [("ports", lambda x: setattr(x, "ports", [5]) if x.operator in ("eq", "range") else None),
              ("items", lambda x: setattr(x, "items", [5]))]
    if isinstance(o, ca.Option):
        m += [("flags", lambda x: x.flags.append("ack")), ("logs", lambda x: x.logs.clear())]
    return m


def _other_line(ca, x):
    n = type(x).__name__
    if n == "Acl":
        return "ip access-list extended Z\n permit ip host 7.7.7.7 any" if x.platform == "ios" else \
            "ip access-list Z\n permit ip 7.7.7.7/32 any"
    return {"Ace": "deny ip host 7.7.7.7 any", "AceGroup": "deny ip host 7.7.7.7 any", "Remark": "remark other",
            "Port": "eq 7", "Protocol": "47", "Option": "log-input", "Wildcard": "7.0.0.0 0.0.0.255",
            "Address": "host 7.7.7.7", "AddressAg": "host 7.7.7.7",
            "AddrGroup": ("object-group network Z\n host 7.7.7.7" if x.platform == "ios" else
                          "object-group ip address Z\n host 7.7.7.7")}[n]


def _mutate_first(ca, x):
    if x.items:
        it = x.items[0]
        it.line = _other_line(ca, it)


def check_object(ca, name, make, text, plat):
    """-> failure dict or None ; everything C16 states for one object"""
    inp = {"class": name, "platform": plat, "text": text}

    def fail(what, **extra):
        return dict(kind="input", kernel="K-copy", input=dict(inp, **extra), failure={"what": f"{name}: {what}"})
    note = {"user": ["note"]}
    try:
        o = make()
    except Exception:  # noqa  (text outside the accepted domain: nothing to copy)
        return None
    o.note = note
    for i, e in enumerate(entries(ca, o)):
        e.note = f"n{i}"
    cls = type(o)
    # 1. copy / rebuild from data: equal, same text, same data
    for how, build in (("copy()", lambda s: s.copy()), ("Class(**data())", lambda s: cls(**s.data()))):
        try:
            c = build(o)
        except Exception as ex:  # noqa
            return fail(f"{how} raised {type(ex).__name__}: {ex}", how=how)
        if not (c == o):
            return fail(f"{how} is not equal (==) to its source", how=how, clause="equal")
        if c.line != o.line:
            return fail(f"{how} has text {c.line!r}, the source {o.line!r}", how=how)
        if _strip(c.data()) != _strip(o.data()):
            return fail(f"{how} has different data: {_diff(_strip(o.data()), _strip(c.data()))} (source text {o.line!r})", how=how)
        if [x.line for x in entries(ca, c)] != [x.line for x in entries(ca, o)]:
            return fail(f"{how}: entries/members differ", how=how)
        if c.uuid == o.uuid:
            return fail(f"{how} has the identifier of its source", how=how)
        if c.note is not note and c.note != note:
            return fail(f"{how} lost the note", how=how)
        if [x.note for x in entries(ca, c)] != [x.note for x in entries(ca, o)]:
            return fail(f"{how}: notes of entries/members differ", how=how)
        # 2. no shared mutable cell but the note
        nid = set(reach(note, set()))
        shared = set(reach(o, nid)) & set(reach(c, nid))
        if shared:
            cells = reach(o, nid)
            ex = [type(cells[i]).__name__ for i in list(shared)[:3]]
            return fail(f"{how} shares mutable state with its source ({ex})", how=how, clause="independent")
    # 3. mutate one, observe the other (both directions)
    for mname, mut in mutations(ca, make()):
        for direction in ("copy", "source"):
            s = make()
            s.note = note
            c = s.copy()
            watched, changed = (s, c) if direction == "copy" else (c, s)
            before = snapshot(watched), watched.line
            try:
                mut(changed)
            except Exception:  # noqa  (a refused mutation is not C16's concern)
                continue
            if (snapshot(watched), watched.line) != before:
                return fail(f"changing the {direction} ({mname}) changed the other object", mutation=mname,
                            direction=direction, clause="independent")
    # 4. in-place transformations keep uuid and note of the object and of its entries / members
    for tname, tr in transformations(ca, make()):
        s = make()
        s.uuid = "ID-self"
        s.note = note
        ents = entries(ca, s)
        for i, e in enumerate(ents):
            e.uuid, e.note = f"ID-{i}", f"n{i}"
        want = {f"ID-{i}": f"n{i}" for i in range(len(ents))}
        leaf = {f"ID-{i}" for i, e in enumerate(ents) if not isinstance(e, ca.AceGroup)}
        if tname == "group":      # group() merges a repeated heading remark (C15 owns that): headings are exempt
            leaf = {f"ID-{i}" for i, e in enumerate(ents) if not isinstance(e, ca.AceGroup)
                    and not (isinstance(e, ca.Remark) and e.text.startswith("= "))}
        if tname == "platform" and s.platform == "ios":        # towards NX-OS multi-port entries are split
            leaf = {f"ID-{i}" for i, e in enumerate(ents) if not isinstance(e, ca.AceGroup) and not _multi(e)}
        try:
            tr(s)
        except Exception:  # noqa
            continue
        if s.uuid != "ID-self" or s.note is not note:
            return fail(f"{tname} changed the identifier or note of the object", transformation=tname, clause="ids")
        got = {e.uuid: e.note for e in entries(ca, s)}
        for u in leaf:
            if u not in got:
                return fail(f"{tname} replaced entry/member {u} ({_line_of(ents, u)!r}) by a new object",
                            transformation=tname, clause="ids")
            if got[u] != want[u]:
                return fail(f"{tname} changed the note of entry/member {u}", transformation=tname, clause="ids")
    return None


def _line_of(ents, u):
    return ents[int(u[3:])].line


def transformations(ca, o):
    plat_other = "nxos" if o.platform == "ios" else "ios"
    t = [("platform", lambda x: setattr(x, "platform", plat_other)),
         ("platform (same)", lambda x: setattr(x, "platform", x.platform))]
    if hasattr(o, "type") and isinstance(o, (ca.Ace, ca.AceGroup, ca.Remark)):
        t.append(("type", lambda x: setattr(x, "type", "extended")))
    for attr in ("port_nr", "protocol_nr"):
        if hasattr(o, attr):
            t.append((attr, lambda x, attr=attr: setattr(x, attr, True)))
            t.append((attr + "=False", lambda x, attr=attr: setattr(x, attr, False)))
    if hasattr(o, "resequence"):
        t.append(("resequence", lambda x: x.resequence(5, 5)))
    if hasattr(o, "sort") and isinstance(o, (ca.Acl, ca.AceGroup, ca.AddrGroup)):
        t.append(("sort", lambda x: x.sort()))
    if isinstance(o, ca.Acl):
        t += [("group", lambda x: x.group("= ")), ("ungroup", lambda x: x.ungroup())]
    # ungroup_ports is the split: entries with one port (or a range) must survive it
    if isinstance(o, (ca.Acl, ca.AceGroup)):
        t.append(("ungroup_ports (no multi-port entry)", _ungroup_if_single))
    return t


def _multi(e):
    return hasattr(e, "srcport") and any(p.operator in ("eq", "neq") and len(p.items) > 1 for p in (e.srcport, e.dstport))


def _ungroup_if_single(x):
    multi = _multi
    flat = []
    for e in x.items:
        flat += e.items if hasattr(e, "items") and not hasattr(e, "srcport") else [e]
    if any(multi(e) for e in flat):
        raise ValueError("has multi-port entries: the split may replace them")
    x.ungroup_ports()


def _diff(a, b, path=""):
    if isinstance(a, dict) and isinstance(b, dict):
        for k in a:
            if k not in b:
                return f"{path}.{k} missing"
            d = _diff(a[k], b[k], f"{path}.{k}")
            if d:
                return d
        return ""
    if isinstance(a, list) and isinstance(b, list):
        if len(a) != len(b):
            return f"{path}: {len(a)} vs {len(b)} elements"
        for i, (x, y) in enumerate(zip(a, b)):
            d = _diff(x, y, f"{path}[{i}]")
            if d:
                return d
        return ""
    return "" if a == b else f"{path}: {a!r} vs {b!r}"


# ------------------------------------------------------------------ the check
def correspond(ctx):
    ca = core.impl_module()
    rnd = random.Random(ctx.seed)
    n = 200 if ctx.tier == "quick" else 1200
    alphabet = ops.C16_OPS + ["copy", "import_uuid", "group", "ungroup_ports", "platform"]
    specs = [ops.gen_history(rnd, ca, alphabet, rnd.randint(1, 7)) for _ in range(n)]
    cases = ops.cases_for(ca, specs)
    ctx.samples += [specs[0], specs[-1]]
    dist = {}
    for s in specs:
        for o in s["ops"]:
            dist[o[0]] = dist.get(o[0], 0) + 1
    ctx.coverage["input_distribution"] = {"histories": n, "operations": dist}
    core.eval_cases(ctx, "K-ids", ops.IMPORTS, cases, chunk=max(5, len(cases) // 16 + 1))
    # the property on the implementation itself, on every history
    for s in specs:
        f = oracle(ctx, "K-ids", dict(s, k="history"))
        if f and not matches_known(ctx, "K-ids", s, f):
            raise core.ImplViolation(dict(kind="input", kernel="K-ids", input=dict(s, k="history"), failure=f))
    # every exported class: copy / data / independence / identifiers
    m = 20 if ctx.tier == "quick" else 150
    count, seen = 0, set()
    for _ in range(m):
        plat, objs = factory(rnd, ca)
        for name, make, text in objs:
            count += 1
            seen.add((name, text))
            f = check_object(ca, name, make, text, plat)
            if f and not matches_known(ctx, "K-copy", f["input"], f["failure"]):
                raise core.ImplViolation(f)
    for name, make, text in _n1_objects(ca):      # zero-length prefixes on IOS: the listed finding N1b, nothing else
        count += 1
        f = check_object(ca, name, make, text, "ios")
        if f and not matches_known(ctx, "K-copy", f["input"], f["failure"]):
            raise core.ImplViolation(f)
    ctx.count("evaluations", count)
    ctx.coverage["distinct_nontrivial"] = len(seen) + len({repr(s["body"]) for s in specs})
    ctx.coverage["objects_checked"] = count


def oracle(ctx, kernel, meta):
    """C16 stated on the implementation for one history: the in-place transformations keep identifier and note of
    the ACL and of every entry they do not replace by a split."""
    ca = core.impl_module()
    if meta.get("k") != "history":
        return None
    state = {}

    def hook(a, op, trace):
        pass
    f = _copy_along(ca, meta)
    if f:
        return f
    trace, _ = ops.run_impl(ca, meta)
    if isinstance(trace, core.Err):
        return None
    prev = trace[0]
    for op, obs in zip(meta["ops"], trace[1:]):
        if isinstance(obs, core.Err):
            break
        k = op[0]
        if k in ("copy", "reparse", "import_uuid", "delete_shadow", "insert", "pop"):
            prev = obs
            continue
        if obs[3] != prev[3]:
            return {"what": f"{k}: identifier/note of the ACL changed from {prev[3]} to {obs[3]}"}
        # AceGroups (since F10): a group that is still there under the same name is the same object with its note
        gb = {t[3]: (t[1], t[2]) for t in prev[4] if t and t[0] == "group"}
        ga = {t[3]: (t[1], t[2]) for t in obs[4] if t and t[0] == "group"}
        if k not in ("group", "ungroup"):
            for name, tag in gb.items():
                if name in ga and ga[name] != tag:
                    return {"what": f"{k}: the AceGroup {name!r} had (identifier, note) {tag}, now {ga[name]}"}
        before = _leaf_tags(prev)
        after = _leaf_tags(obs)
        lines_b = dict(zip([t[0] for t in _leaf_seq(prev)], prev[1][1:]))
        split = k == "ungroup_ports" or (k == "platform" and op[1] == "nxos")
        for (i, nt) in before.items():
            if i in after:
                if after[i] != nt:
                    return {"what": f"{k}: note of entry {i} changed from {nt} to {after[i]}"}
                continue
            line = lines_b.get(i, "")
            if k == "group" and line.split("remark ")[-1].startswith(op[1]) and "remark" in line.split()[:2]:
                continue        # a repeated heading remark is merged by group() (owned by C15)
            if split and _is_multi(line):
                if sum(1 for j, n2 in after.items() if j not in before and n2 == nt) < 2:
                    return {"what": f"{k}: split entry {i} ({line!r}) is not replaced by entries carrying its note"}
                continue
            return {"what": f"{k}: entry {i} ({line!r}) lost its identifier (not split)"}
        prev = obs
    return None


def _copy_along(ca, meta, report_known=False):
    """in every state a history reaches, copy() and Acl(**data()) give the same text and the same data (the numbers
    of blocks included)"""
    try:
        a = ops.build(ca, meta)
    except Exception:  # noqa
        return None
    for i, op in enumerate(meta["ops"]):
        try:
            a = ops.apply_op(ca, a, op)
        except Exception:  # noqa
            return None
        try:
            want_line, want = a.line, _strip(a.data())
            for how, c in (("copy()", a.copy()), ("Acl(**data())", ca.Acl(**a.data()))):
                if c.line != want_line:
                    return {"what": f"after step {i} {op}: {how} has text {c.line!r}, the source {want_line!r}"}
                if _strip(c.data()) != want:
                    # listed finding N15: a block without heading that no longer stands first is merged into the
                    # block before it when the ACL is rebuilt (same text, fewer blocks)
                    moved = (len(c.items) < len(a.items) and any(
                        it.__class__.__name__ == "AceGroup" and it.items and it.items[0].__class__.__name__ != "Remark"
                        for it in list(a.items)[1:]))
                    if moved and not report_known:
                        continue        # N15 is reported from its witness by known_lines(); look further
                    return {"what": f"after step {i} {op}: {how} has different data: {_diff(want, _strip(c.data()))}",
                            "headingless_block_moved": bool(moved), "step": i}
        except Exception:  # noqa
            return None
    return None


def _leaf_seq(obs):
    out = []
    for t in obs[4]:
        if t and t[0] == "group":
            out += [tuple(x) for x in t[5]]
        else:
            out.append(tuple(t))
    return out


def _leaf_tags(obs):
    return {i: n for i, n in _leaf_seq(obs)}


def _is_multi(line):
    toks = line.split()
    for i, t in enumerate(toks):
        if t in ("eq", "neq"):
            j = i + 1
            cnt = 0
            while j < len(toks) and not _is_addr_start(toks[j]) and toks[j] not in ("eq", "neq", "gt", "lt", "range") \
                    and toks[j] not in acegen.FLAGS + ["log", "log-input", "established"]:
                cnt += 1
                j += 1
            if cnt > 1:
                return True
    return False


def _is_addr_start(t):
    return t in ("any", "host", "object-group", "addrgroup") or "." in t


def search(ctx):
    return None


def _n1_objects(ca):
    out = []
    for t in ("10.0.0.0/0", "0.0.0.0/0"):
        out.append(("Address", (lambda t=t: ca.Address(t, platform="ios")), t))
        out.append(("Ace", (lambda t=t: ca.Ace(f"permit ip {t} any", platform="ios")), f"permit ip {t} any"))
    return out


N15_WITNESS = {"platform": "ios", "port_nr": False, "protocol_nr": False, "k": "history",
               "body": ["permit icmp any any", "remark = B1", "permit tcp any any eq 80"],
               "ops": [["group", "= "], ["reverse"]]}


def known_lines(ctx):
    ca = core.impl_module()
    out = []
    for f in core.load_findings("C16"):
        if f["status"] != "known":
            continue
        hit = False
        if f["id"] == "N1b":
            for name, make, text in _n1_objects(ca):
                r = check_object(ca, name, make, text, "ios")
                if r and matches_known(ctx, "K-copy", r["input"], r["failure"]):
                    hit = True
        if f["id"] == "N15":
            r = _copy_along(ca, N15_WITNESS, report_known=True)
            hit = bool(r and matches_known(ctx, "K-ids", N15_WITNESS, r))
        if hit:
            out.append(f"{f['id']}: {f['what']}")
        else:
            ctx.notes.append(f"known finding {f['id']} no longer reproduces")
    return out


def matches_known(ctx, kernel, meta, failure):
    """N1b: the copy of an IOS Address / ACE built from a zero-length prefix 'A.B.C.D/0' reads 'any' where the
    source reads '0.0.0.0 255.255.255.255' (same input as C06's N1).  Only text/data differences of that input."""
    import re
    w = failure.get("what", "")
    if kernel == "K-ids" and failure.get("headingless_block_moved") and "different data: .items:" in w:
        return "N15"
    if (kernel == "K-copy" and meta.get("class") in ("Address", "Ace") and meta.get("platform") == "ios"
            and re.search(r"(^|\s)\d+\.\d+\.\d+\.\d+/0(\s|$)", str(meta.get("text", "")))
            and meta.get("how") and meta.get("clause") in (None, "equal") and "mutation" not in meta
            and "transformation" not in meta
            and ("has text" in w or "different data" in w or "not equal (==)" in w)):
        return "N1b"
    return None
