"""Shared generator of abstract ACEs, their spellings (text for the implementation, `fields` term for
the model) and the independent set-level oracle for "packet set of bottom inside packet set of top"."""
from __future__ import annotations

import random

from harness import addrgen as ag
from harness.core import coq_bool, coq_list, coq_str

FLAGS = ["ack", "fin", "psh", "rst", "syn", "urg"]
PL = {"ios": "Ios", "nxos": "Nxos", "asa": "Asa"}
PROTO_POOL = [0, 0, 6, 6, 6, 17, 17, 1, 47, 50, 89, 4, 41, 99, 200, 255]
# every number that carries a TCP or UDP name in the reference tables (spec/Reference.v)
NAMED_PORTS = [7, 9, 13, 19, 20, 21, 22, 23, 25, 37, 42, 43, 49, 53, 67, 68, 69, 70, 79, 80, 101, 109, 110, 111, 113,
               119, 123, 135, 137, 138, 139, 143, 161, 162, 177, 179, 194, 195, 389, 434, 443, 496, 500, 512, 513, 514,
               515, 517, 520, 521, 540, 543, 544, 554, 636, 750, 1352, 1494, 1521, 1645, 1646, 1720, 1723, 2049, 2748,
               3020, 3949, 4500, 4789, 5060, 5190, 5510, 5631, 5632, 15001, 15002]


def rand_port(rnd, plat):
    op = rnd.choice(["eq", "eq", "neq", "gt", "lt", "range", "range"])
    grid = [1, 2, 22, 80, 443, 1023, 1024, 65534, 65535]
    if rnd.random() < 0.35:   # ports that have a name on some platform / version table
        grid = NAMED_PORTS
    if op in ("eq", "neq"):
        n = 1 if plat != "ios" else rnd.choice([1, 1, 2, 3])
        xs = sorted(rnd.sample(grid + [rnd.randint(1, 65535) for _ in range(3)], n))
    elif op == "range":
        a, b = rnd.choice(grid), rnd.choice(grid + [rnd.randint(1, 65535)])
        xs = [a, b]
    else:
        xs = [rnd.choice(grid + [rnd.randint(1, 65535)])]
    return (op, xs)


def port_set(p):
    if p is None:
        return None
    op, xs = p
    if op == "eq":
        return set(xs)
    if op == "neq":
        return set(range(1, 65536)) - set(xs)
    if op == "gt":
        return set(range(xs[0] + 1, 65536))
    if op == "lt":
        return set(range(1, xs[0]))
    return set(range(min(xs), max(xs) + 1))


def rand_addr(rnd, groups=True):
    """abstract address: ("set", base, mask) or ("group", name, [(base, mask), ...])"""
    if groups and rnd.random() < 0.25:
        mem = []
        for _ in range(rnd.randint(0, 4)):
            _, b, m = ag.rand_abstract(rnd, ("host", "prefix", "prefix", "nc"))
            mem.append((b, m))
        return ("group", rnd.choice(["G1", "G2", "SRV"]), mem)
    _, b, m = ag.rand_abstract(rnd)
    return ("set", b, m)


def rand_ace(rnd, plat, groups=True):
    proto = rnd.choice(PROTO_POOL)
    a = {"permit": rnd.random() < 0.7, "proto": proto, "src": rand_addr(rnd, groups), "dst": rand_addr(rnd, groups),
         "sport": None, "dport": None, "flags": [], "logs": []}
    if proto in (6, 17):
        if rnd.random() < 0.4:
            a["sport"] = rand_port(rnd, plat)
        if rnd.random() < 0.6:
            a["dport"] = rand_port(rnd, plat)
    if proto == 6 and rnd.random() < 0.35:
        a["flags"] = rnd.sample(FLAGS, rnd.randint(1, 3))
    if rnd.random() < (0.6 if a["flags"] else 0.3):      # flags and log keywords together: their order is varied
        a["logs"] = [rnd.choice(["log", "log-input"])]
    return a


def mutate(rnd, plat, a, groups=True):
    """A related ACE: change zero or more fields towards a superset / subset / sibling."""
    b = {k: (list(v) if isinstance(v, list) else v) for k, v in a.items()}
    if a["proto"] == 6 and len(a["flags"]) >= 1 and rnd.random() < 0.15:
        # the same entry with flag sets that overlap without one containing the other (and the subset / superset cases)
        rest = [f for f in FLAGS if f not in a["flags"]]
        common = rnd.choice(a["flags"])
        b["flags"] = rnd.choice([sorted({common, rnd.choice(rest)}) if rest else list(a["flags"]),
                                 sorted(set(a["flags"]) | {rnd.choice(rest)}) if rest else list(a["flags"]),
                                 [common]])
        return b
    for _ in range(rnd.choice([0, 1, 1, 2, 3])):
        f = rnd.choice(["permit", "proto", "src", "dst", "sport", "dport", "flags", "logs"])
        if f == "permit":
            if rnd.random() < 0.3:
                b["permit"] = not b["permit"]
        elif f == "proto":
            b["proto"] = rnd.choice([0, 0, a["proto"], rnd.choice(PROTO_POOL)])
            if b["proto"] not in (6, 17):
                b["sport"] = b["dport"] = None
            if b["proto"] != 6:
                b["flags"] = []
        elif f in ("src", "dst"):
            cur = b[f]
            if cur[0] == "set":
                _, nb, nm = ag.related(rnd, "x", cur[1], cur[2])
                if bin(nm).count("1") > 14 and not ag.is_contig(nm):
                    nm = ag.hostmask(16)
                b[f] = ("set", nb, nm)
                if groups and rnd.random() < 0.15:
                    b[f] = ("group", "G1", [(cur[1], cur[2]), (nb, nm)])
            else:
                mem = list(cur[2])
                if mem and rnd.random() < 0.5:
                    mem.pop(rnd.randrange(len(mem)))
                else:
                    _, nb, nm = ag.rand_abstract(rnd, ("host", "prefix"))
                    mem.append((nb, nm))
                b[f] = ("group", cur[1], mem) if rnd.random() < 0.7 else ("set", 0, ag.ALL)
        elif f in ("sport", "dport"):
            if b["proto"] in (6, 17):
                cur = b[f]
                r = rnd.random()
                if r < 0.25:
                    b[f] = None
                elif r < 0.5 or cur is None:
                    b[f] = rand_port(rnd, plat)
                else:
                    ps = sorted(port_set(cur))
                    gaps = [x for x in range(ps[0], ps[-1] + 1) if x not in set(ps)][:50] if ps and len(ps) <= 50 else []
                    if gaps and rnd.random() < 0.5:
                        # inside the bounds of a multi-port list, but not in it (the list is not an interval)
                        b[f] = rnd.choice([("eq", [rnd.choice(gaps)]), ("range", [ps[0], ps[-1]]),
                                           ("eq", sorted({ps[0], rnd.choice(gaps)})) if plat == "ios" else ("eq", [gaps[0]]),
                                           ("lt", [ps[-1]]), ("gt", [ps[0]])])
                    elif ps and rnd.random() < 0.5:
                        b[f] = ("range", [max(1, ps[0] - rnd.randint(0, 5)), min(65535, ps[-1] + rnd.randint(0, 5))])
                    elif ps:
                        b[f] = ("eq", [rnd.choice(ps)])
                    else:
                        b[f] = rnd.choice([("range", [1, 65535]), ("gt", [65535]), ("lt", [1])])
        elif f == "flags":
            if b["proto"] == 6:
                r = rnd.random()
                if r < 0.3:
                    b["flags"] = []
                elif r < 0.6:
                    b["flags"] = sorted(set(b["flags"]) | set(rnd.sample(FLAGS, rnd.randint(1, 2))))
                else:
                    b["flags"] = rnd.sample(FLAGS, rnd.randint(1, 3))
        else:
            b["logs"] = rnd.choice([[], ["log"], ["log-input"]])
    if rnd.random() < 0.08 and b["proto"] in (6, 17):
        b[rnd.choice(["sport", "dport"])] = rnd.choice([("gt", [65535]), ("lt", [1]), ("range", [1, 65535])])
    return b


# ------------------------------------------------------------------ spelling
def group_key(members):
    import zlib
    norm = sorted({(b & ~m & ag.ALL, m) for b, m in [tuple(x) for x in members]})
    return zlib.crc32(repr(norm).encode()) % 100000


def spell_addr(rnd, plat, a):
    """-> (coq spelling, coq member list, text, member texts)"""
    if a[0] == "set":
        c, t = ag.spell(rnd, plat, a[1], a[2])
        return c, "[]", t, None
    kw = "object-group" if plat == "ios" else "addrgroup"
    # same text => same entry: the group name is a function of the member sets, members are spelled canonically
    import zlib
    norm = sorted({(b & ~m & ag.ALL, m) for b, m in a[2]})
    # (a 4th element fixes the name: the twin ACLs of kernels/aclshadow.py carry the name of the group they were made from)
    name = f"{a[1]}-{a[3] if len(a) > 3 else group_key(a[2])}"
    srnd = random.Random(zlib.crc32(repr(norm).encode()))
    mem = [ag.spell(srnd, plat, b, m, dirty=False) for b, m in [tuple(x) for x in a[2]]]
    return f'(SGroup {coq_str(name)} [])', coq_list(c for c, _ in mem), f"{kw} {name}", [t for _, t in mem]


def port_text(p):
    if p is None:
        return ""
    return " ".join([p[0]] + [str(x) for x in p[1]])


def spell_ace(rnd, plat, a, proto_names=None):
    cs, cms, ts, ms = spell_addr(rnd, plat, a["src"])
    cd, cmd, td, md = spell_addr(rnd, plat, a["dst"])
    proto_txt = str(a["proto"])
    if proto_names and a["proto"] in proto_names and rnd.random() < 0.7:
        proto_txt = proto_names[a["proto"]]
    opts = list(a["flags"]) + list(a["logs"])
    if len(opts) > 1 and rnd.random() < 0.5:
        rnd.shuffle(opts)                     # a log keyword may stand before a flag
    parts = ["permit" if a["permit"] else "deny", proto_txt, ts, port_text(a["sport"]), td, port_text(a["dport"])] + opts
    text = " ".join(x for x in parts if x)
    sp = coq_list(coq_str(t) for t in port_text(a["sport"]).split())
    dp = coq_list(coq_str(t) for t in port_text(a["dport"]).split())
    fields = (f"(mkF {coq_bool(a['permit'])} {a['proto']} {cs} {cms} {cd} {cmd} {sp} {dp} "
              f"{coq_list(coq_str(o) for o in opts)})")
    return {"text": text, "fields": fields, "src_members": ms, "dst_members": md}


DECOY = {"ios": ["host 203.0.113.9", "198.51.100.0 0.0.0.255"], "nxos": ["host 203.0.113.9", "198.51.100.0/24"]}


def build_impl(ca, plat, sp, version="0", history=0):
    """history=0: members attached once.  history>0: the object first carries other members and answers queries
    (so that anything memoised is filled), then its members are replaced (1), edited in place (2) or
    popped/appended (3) to become the stated ones."""
    o = ca.Ace(sp["text"], platform=plat, version=version)
    for side, key in ((o.srcaddr, "src_members"), (o.dstaddr, "dst_members")):
        mem = sp[key]
        if mem is None:
            continue
        if not history:
            side.items = list(mem)
            continue
        side.items = list(DECOY[plat])
        _ = side.ipnets()
        try:
            o.shadow_of(ca.Ace("permit ip any any", platform=plat))
            ca.Ace("permit ip any any", platform=plat).shadow_of(o)
        except Exception:  # noqa
            pass
        if history == 1 or not mem:
            side.items = list(mem)
        elif history == 2:
            side.items = list(DECOY[plat])[:1] * len(mem)
            for it, line in zip(side.items, mem):
                it.line = line
        else:
            while side.items:
                side.items.pop()
            for line in mem:
                side.items.append(ca.Address(line, platform=plat))
    if history == 4:
        _port_history(ca, plat, o, sp, version)
    return o


def _port_history(ca, plat, o, sp, version):
    """the entry first carries other ports and answers queries (anything memoised about its ports is filled), then
    its port expressions are set back, through the public setters, to the stated ones"""
    want = o.line
    for port in (o.srcport, o.dstport):
        real = port.line
        if not real:
            continue
        port.line = "eq 1" if real != "eq 1" else "eq 2"
        try:
            other = ca.Ace(sp["text"], platform=plat, version=version)
            o.shadow_of(other)
            other.shadow_of(o)
        except Exception:  # noqa
            pass
        how = len(real) % 3
        if how == 0:
            port.line = real
        elif how == 1:
            fresh = ca.Port(real, platform=plat, protocol=port.protocol, port_nr=port.port_nr)
            try:
                port.ports = list(fresh.ports)
            except Exception:  # noqa
                pass
            if port.line != real:
                port.line = real
        else:
            port.line = "range 1 2"
            port.line = real
    assert o.line == want, (o.line, want)


# ------------------------------------------------------------------ oracle
def addr_sets(a):
    return [(a[1], a[2])] if a[0] == "set" else list(a[2])


def group_free(a):
    return a["src"][0] == "set" and a["dst"][0] == "set"


def nonempty_ports(a):
    return all(a[k] is None or port_set(a[k]) for k in ("sport", "dport"))


def covered_exact(b, t):
    """Exact: packet set of b inside packet set of t, for group-free ACEs with non-empty port sets."""
    if t["proto"] != 0 and t["proto"] != b["proto"]:
        return False
    for f in ("src", "dst"):
        if not ag.subset(b[f][1], b[f][2], t[f][1], t[f][2]):
            return False
    for f in ("sport", "dport"):
        if t[f] is not None:
            bs = port_set(b[f]) if b[f] is not None else set(range(1, 65536))
            if not bs <= port_set(t[f]):
                return False
    if t["flags"]:
        if not b["flags"] or not set(b["flags"]) <= set(t["flags"]):
            return False
    return True


def witness_not_covered(rnd, b, t, tries=300):
    """Search a packet matched by b and not by t (works with groups too). -> packet or None"""
    def pick_addr(a):
        sets = addr_sets(a)
        if not sets:
            return None
        bb, mm = rnd.choice(sets)
        return (bb & ~mm & ag.ALL) | (rnd.getrandbits(32) & mm)

    def in_addr(x, a):
        return any(ag.in_set(x, bb, mm) for bb, mm in addr_sets(a))

    def match(a, pk):
        if a["proto"] != 0 and a["proto"] != pk["proto"]:
            return False
        if not in_addr(pk["src"], a["src"]) or not in_addr(pk["dst"], a["dst"]):
            return False
        for f in ("sport", "dport"):
            if a[f] is not None and (pk["proto"] not in (6, 17) or pk[f] not in port_set(a[f])):
                return False
        if a["flags"] and (pk["proto"] != 6 or not set(a["flags"]) & set(pk["flags"])):
            return False
        return True

    for _ in range(tries):
        pk = {"proto": b["proto"] if b["proto"] else rnd.choice([6, 17, 1, 99]),
              "src": pick_addr(b["src"]), "dst": pick_addr(b["dst"]), "flags": []}
        if pk["src"] is None or pk["dst"] is None:
            return None
        for f in ("sport", "dport"):
            ps = port_set(b[f]) if b[f] is not None else None
            if ps is None:
                pk[f] = rnd.choice([1, 65535, rnd.randint(1, 65535)])
            elif not ps:
                return None
            else:
                pk[f] = rnd.choice(sorted(ps)[:3] + sorted(ps)[-3:] + [rnd.choice(tuple(ps))])
        if pk["proto"] == 6:
            if b["flags"]:
                pk["flags"] = [rnd.choice(b["flags"])]
            else:
                pk["flags"] = rnd.choice([[], [rnd.choice(FLAGS)]])
        if match(b, pk) and not match(t, pk):
            return pk
    return None


# ------------------------------------------------------------------ observation of an implementation ACE
def _ivs(ports):
    ports = list(ports)
    out = []
    if ports:
        lo = hi = ports[0]
        for x in ports[1:]:
            if x == hi + 1:
                hi = x
            elif x == hi:
                pass
            else:
                out.append([lo, hi])
                lo = hi = x
        out.append([lo, hi])
    return [len(ports), out]


def obs_addr(a):
    from ipaddress import IPv4Address
    if a.type == "addrgroup":
        return ["addrgroup", a.addrgroup, len(a.items)]
    pre, wm = a.wildcard.split()
    net = a.ipnet
    return [a.type, int(IPv4Address(pre)), int(IPv4Address(wm)),
            [[int(net.network_address), net.prefixlen]] if net is not None else []]


def obs_ace(o):
    """same shape as RunAce.v_ace"""
    return [o.action == "permit", o.protocol.number, obs_addr(o.srcaddr), obs_addr(o.dstaddr),
            list(o.srcport.items), _ivs(o.srcport.ports), list(o.dstport.items), _ivs(o.dstport.ports),
            list(o.option.flags), list(o.option.logs)]
