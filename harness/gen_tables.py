"""Fail-closed translator: module-level data tables of /repo/cisco_acl/*.py -> coq/gen/Tables.v

Only literal data is folded: str/int constants, tuples/lists/dicts of those, ``{**A, **B}``,
re-assignment of a name, names of earlier tables, and integer arithmetic on constants
(``2**K - 1``).  Anything else in the right-hand side of a table we need => TranslateError.
The folded values are cross-checked against the values of the imported module (two independent
readings of the same source must agree).
"""
from __future__ import annotations

import ast
import importlib
import os
import sys

REPO = os.environ.get("VERIF_REPO", "/repo")


class TranslateError(Exception):
    pass


WANTED = {
    "port_name": [
        "TCP_NAME_PORT__BASE", "TCP_NAME_PORT__ASA", "TCP_NAME_PORT__NXOS",
        "TCP_NAME_PORT__IOS_15", "TCP_NAME_PORT__IOS_16",
        "UDP_NAME_PORT__BASE", "UDP_NAME_PORT__ASA", "UDP_NAME_PORT__NXOS",
        "UDP_NAME_PORT__IOS_15", "UDP_NAME_PORT__IOS_16",
    ],
    "protocol": ["PROTOCOL_IP", "OPTIONS", "PROTOCOLS_IOS", "PROTOCOLS_NXOS", "PROTOCOLS_ASA",
                 "PROTOCOLS_ANY"],
    "helpers": ["IOS", "MAX_LINE_LENGTH", "SEQUENCE_MAX", "PLATFORMS", "ACTIONS", "OPERATORS",
                "DEF_INDENT"],
    "wildcard": ["PREFIX_LEN", "ALL_ONES", "DEF_NCWB", "MAX_NCWB"],
    "option": ["LOGS"],
}


def fold(node: ast.AST, env: dict):
    if isinstance(node, ast.Constant):
        if isinstance(node.value, bool) or not isinstance(node.value, (int, str)):
            raise TranslateError(f"unsupported constant {node.value!r}")
        return node.value
    if isinstance(node, ast.Name):
        if node.id not in env:
            raise TranslateError(f"unknown name {node.id}")
        v = env[node.id]
        return dict(v) if isinstance(v, dict) else v
    if isinstance(node, (ast.Tuple, ast.List)):
        return tuple(fold(e, env) for e in node.elts)
    if isinstance(node, ast.Dict):
        out: dict = {}
        for k, v in zip(node.keys, node.values):
            if k is None:  # **X
                sub = fold(v, env)
                if not isinstance(sub, dict):
                    raise TranslateError("** of a non-dict")
                for kk, vv in sub.items():
                    out[kk] = vv
            else:
                out[fold(k, env)] = fold(v, env)
        return out
    if isinstance(node, ast.BinOp):
        a, b = fold(node.left, env), fold(node.right, env)
        if not (isinstance(a, int) and isinstance(b, int)):
            raise TranslateError("arithmetic on non-int")
        if isinstance(node.op, ast.Pow):
            return a ** b
        if isinstance(node.op, ast.Sub):
            return a - b
        if isinstance(node.op, ast.Add):
            return a + b
        if isinstance(node.op, ast.Mult):
            return a * b
        raise TranslateError(f"unsupported operator {type(node.op).__name__}")
    raise TranslateError(f"unsupported expression {type(node).__name__} at line {getattr(node, 'lineno', '?')}")


def read_module(name: str, wanted: list) -> dict:
    path = os.path.join(REPO, "cisco_acl", f"{name}.py")
    tree = ast.parse(open(path, encoding="utf-8").read(), path)
    env: dict = {}
    for st in tree.body:
        targets = []
        value = None
        if isinstance(st, ast.Assign):
            targets, value = st.targets, st.value
        elif isinstance(st, ast.AnnAssign) and st.value is not None:
            targets, value = [st.target], st.value
        for t in targets:
            if isinstance(t, ast.Name):
                try:
                    env[t.id] = fold(value, env)
                except TranslateError as ex:
                    if t.id in wanted:
                        raise TranslateError(f"{name}.{t.id}: {ex}") from ex
                    env.pop(t.id, None)
    missing = [w for w in wanted if w not in env]
    if missing:
        raise TranslateError(f"{name}: tables not found: {missing}")
    return {w: env[w] for w in wanted}


def known_skip_literal() -> tuple:
    """The literal list ``known_skip`` inside AceGroup._line_to_oace."""
    path = os.path.join(REPO, "cisco_acl", "ace_group.py")
    tree = ast.parse(open(path, encoding="utf-8").read(), path)
    found = []
    for node in ast.walk(tree):
        if isinstance(node, ast.FunctionDef) and node.name == "_line_to_oace":
            for st in ast.walk(node):
                if isinstance(st, ast.Assign) and any(
                        isinstance(t, ast.Name) and t.id == "known_skip" for t in st.targets):
                    found.append(fold(st.value, {}))
    if len(found) != 1 or not all(isinstance(s, str) for s in found[0]):
        raise TranslateError("ace_group._line_to_oace: known_skip literal not found")
    return tuple(found[0])


def coq_str(s: str) -> str:
    if any(ord(c) < 32 or ord(c) > 126 for c in s):
        raise TranslateError(f"non printable-ASCII string {s!r}")
    return '"' + s.replace('"', '""') + '"'


def coq_val(v) -> str:
    if isinstance(v, bool):
        raise TranslateError("bool")
    if isinstance(v, int):
        if v < 0:
            raise TranslateError("negative int")
        return f"{v}%N"
    if isinstance(v, str):
        return coq_str(v)
    if isinstance(v, tuple):
        return "[" + "; ".join(coq_val(x) for x in v) + "]"
    if isinstance(v, dict):
        return "[" + ";\n   ".join(f"({coq_val(k)}, {coq_val(x)})" for k, x in v.items()) + "]"
    raise TranslateError(f"cannot emit {type(v)}")


def coq_type(v) -> str:
    if isinstance(v, int):
        return "N"
    if isinstance(v, str):
        return "string"
    if isinstance(v, tuple):
        return "list string" if all(isinstance(x, str) for x in v) else "list N"
    if isinstance(v, dict):
        return "list (string * N)"
    raise TranslateError("type")


def collect() -> dict:
    out = {}
    for mod, wanted in WANTED.items():
        for k, v in read_module(mod, wanted).items():
            out[f"{mod}.{k}"] = v
    out["ace_group.KNOWN_SKIP"] = known_skip_literal()
    return out


def cross_check(tables: dict) -> None:
    """The imported module must hold the same values (second reading of the same source)."""
    if REPO not in sys.path:
        sys.path.insert(0, REPO)
    for key, v in tables.items():
        mod, name = key.split(".")
        if mod == "ace_group":
            continue
        m = importlib.import_module(f"cisco_acl.{mod}")
        rv = getattr(m, name)
        if isinstance(rv, dict):
            same = list(rv.items()) == list(v.items())
        elif isinstance(rv, (tuple, list)):
            same = tuple(rv) == tuple(v)
        else:
            same = rv == v and type(rv) is type(v)
        if not same:
            raise TranslateError(f"{key}: ast value differs from imported value")


def render(tables: dict) -> str:
    lines = ["(* GENERATED by harness/gen_tables.py from /repo/cisco_acl/*.py -- do not edit *)",
             "From Coq Require Import NArith String List.",
             "Import ListNotations.",
             "Local Open Scope string_scope.",
             ""]
    for key, v in tables.items():
        name = key.split(".")[1]
        lines.append(f"Definition {name} : {coq_type(v)} :=\n  {coq_val(v)}.")
        lines.append("")
    # keep the kernel from unfolding the big literals during conversion (vm_compute ignores this)
    names = " ".join(k.split(".")[1] for k in tables)
    lines.append(f"Global Strategy 100 [{names}].")
    lines.append("")
    return "\n".join(lines)


def generate(path: str) -> dict:
    tables = collect()
    cross_check(tables)
    text = render(tables)
    old = open(path).read() if os.path.exists(path) else None
    if old != text:
        os.makedirs(os.path.dirname(path), exist_ok=True)
        with open(path, "w") as fh:
            fh.write(text)
    return tables


if __name__ == "__main__":
    t = generate(sys.argv[1] if len(sys.argv) > 1 else "/verif/coq/gen/Tables.v")
    print(f"{len(t)} tables")
