"""An independent reader of Cisco extended/standard ACE syntax (plain LL(1) descent, no regex emulation,
names resolved through the hand-written reference tables of coq/spec/Reference.v).  Used only by oracles.

read_ace(text, platform) -> dict(seq, permit, proto, src=(base,mask)|("group",name), sport, dst, dport, flags, logs)
where sport/dport are None or (operator, [numbers]).  Raises ReadError when the text is not valid syntax for the
platform.
"""
from __future__ import annotations

import os
import re

from harness import core

ALL = 2 ** 32 - 1
FLAGS = {"ack", "fin", "psh", "rst", "syn", "urg"}
LOGS = {"log", "log-input"}
OPT_KV = {"dscp", "precedence", "tos", "time-range"}
OPT_WORD = {"fragments"}
OPERATORS = {"eq", "neq", "gt", "lt", "range"}


class ReadError(Exception):
    pass


_REF = None


def ref():
    global _REF
    if _REF is None:
        src = open(os.path.join(core.COQ, "spec", "Reference.v")).read()
        _REF = {}
        for name in ("REF_TCP", "REF_UDP", "REF_PROTO"):
            body = src.split(f"Definition {name}")[1].split("]%N.")[0]
            _REF[name] = {m.group(1): int(m.group(2)) for m in re.finditer(r'\("([^"]+)",\s*(\d+)\)', body)}
    return _REF


def ip(tok):
    parts = tok.split(".")
    if len(parts) != 4 or not all(p.isdigit() and len(p) <= 3 and int(p) <= 255 and (p == "0" or p[0] != "0") for p in parts):
        raise ReadError(f"bad address {tok!r}")
    return (int(parts[0]) << 24) | (int(parts[1]) << 16) | (int(parts[2]) << 8) | int(parts[3])


class _P:
    def __init__(self, toks):
        self.t, self.i = toks, 0

    def peek(self):
        return self.t[self.i] if self.i < len(self.t) else None

    def next(self):
        if self.i >= len(self.t):
            raise ReadError("unexpected end of line")
        self.i += 1
        return self.t[self.i - 1]


def _addr(p, platform):
    t = p.next()
    if t == "any":
        return (0, ALL)
    if t == "host":
        return (ip(p.next()), 0)
    if t in ("object-group", "addrgroup"):
        if (t == "addrgroup") != (platform == "nxos"):
            raise ReadError(f"{t} is not valid on {platform}")
        return ("group", p.next())
    if "/" in t:
        a, ln = t.split("/", 1)
        if not ln.isdigit() or int(ln) > 32:
            raise ReadError("bad prefix length")
        m = (1 << (32 - int(ln))) - 1
        return (ip(a) & ~m & ALL, m)
    a = ip(t)
    m = ip(p.next())
    return (a & ~m & ALL, m)


def _port(p, proto):
    t = p.peek()
    if t not in OPERATORS:
        return None
    if proto not in (6, 17):
        raise ReadError("port operator on a protocol that is not tcp/udp")
    op = p.next()
    tbl = ref()["REF_TCP" if proto == 6 else "REF_UDP"]
    nums = []
    while p.peek() is not None and (p.peek().isdigit() or p.peek() in tbl):
        x = p.next()
        n = int(x) if x.isdigit() else tbl[x]
        if not 0 <= n <= 65535:
            raise ReadError("port out of range")
        nums.append(n)
    need = {"gt": 1, "lt": 1, "range": 2}.get(op)
    if not nums or (need and len(nums) != need):
        raise ReadError(f"wrong operand count for {op}")
    return (op, nums)


def read_ace(text, platform="ios"):
    p = _P(text.split())
    seq = 0
    if p.peek() is not None and p.peek().isdigit():
        seq = int(p.next())
    act = p.next()
    if act not in ("permit", "deny"):
        raise ReadError("action expected")
    t = p.next()
    if t.isdigit():
        proto = int(t)
        if proto > 255:
            raise ReadError("protocol number")
        named = False
    else:
        if t not in ref()["REF_PROTO"]:
            raise ReadError(f"unknown protocol {t!r}")
        proto = ref()["REF_PROTO"][t]
        named = True
    src = _addr(p, platform)
    if p.peek() in OPERATORS and not named and proto in (6, 17):
        raise ReadError("port operators require the tcp/udp keyword")
    sport = _port(p, proto)
    dst = _addr(p, platform)
    if p.peek() in OPERATORS and not named and proto in (6, 17):
        raise ReadError("port operators require the tcp/udp keyword")
    dport = _port(p, proto)
    if platform != "ios":
        for pt in (sport, dport):
            if pt and pt[0] in ("eq", "neq") and len(pt[1]) != 1:
                raise ReadError("several eq/neq ports are not valid on this platform")
    flags, logs, opts = [], [], []
    while p.peek() is not None:
        t = p.next()
        if t in FLAGS:
            if proto != 6:
                raise ReadError("tcp flag on a non-tcp entry")
            flags.append(t)
        elif t in LOGS:
            logs.append(t)
        elif t in OPT_KV:                       # keyword + value: the pair stays together, in this order
            if p.peek() is None:
                raise ReadError(f"option {t!r} without a value")
            opts.append((t, p.next()))
        elif t in OPT_WORD:
            opts.append((t,))
        else:
            raise ReadError(f"unexpected token {t!r}")
    return {"seq": seq, "permit": act == "permit", "proto": proto, "src": src, "sport": sport, "dst": dst,
            "dport": dport, "flags": flags, "logs": logs, "opts": opts}


def port_set(pt):
    if pt is None:
        return None
    op, xs = pt
    if op == "eq":
        return set(xs)
    if op == "neq":
        return set(range(1, 65536)) - set(xs)
    if op == "gt":
        return set(range(xs[0] + 1, 65536))
    if op == "lt":
        return set(range(1, xs[0]))
    return set(range(min(xs), max(xs) + 1))


def same_packets(r, a):
    """reader result r denotes the same packets/action as the abstract ACE a (group-free)."""
    if r["permit"] != a["permit"] or r["proto"] != a["proto"]:
        return "action/protocol"
    for f in ("src", "dst"):
        if a[f][0] == "group" or r[f][0] == "group":
            if not (a[f][0] == "group" and r[f][0] == "group" and r[f][1] == a[f][1]):
                return f"{f} address group"
            continue
        b, m = r[f]
        ab, am = a[f][1], a[f][2]
        if m != am or (b & ~m & ALL) != (ab & ~am & ALL):
            return f"{f} address set"
    for f in ("sport", "dport"):
        want = None if a[f] is None else port_set((a[f][0], list(a[f][1])))
        if port_set(r[f]) != want:
            return f"{f} port set"
    if set(r["flags"]) != set(a["flags"]):
        return "flags"
    if [tuple(x) for x in r.get("opts", [])] != [tuple(x) for x in a.get("opts", [])]:
        return "options (keyword/value pairs)"
    return None
