"""Shared generator of IPv4 address spellings (used by C13, C03, C11, C01, ...).

An *abstract address* is a pair (base, mask) (mask = wildcard bits) or a group of such pairs.  A
*spelling* is (coq_term, text) where text is what the implementation is given and coq_term is the
`spelling` value the model is given; the harness only *generates* both from the same numbers, it
never parses text.
"""
from __future__ import annotations

import random
from ipaddress import IPv4Address

ALL = 2 ** 32 - 1


def ip(n: int) -> str:
    return str(IPv4Address(n & ALL))


def hostmask(ln: int) -> int:
    return (1 << (32 - ln)) - 1


def netmask(ln: int) -> int:
    return ALL ^ hostmask(ln)


def rand_nc_mask(rnd, max_bits=4) -> int:
    r = rnd.choice([0, 0, 1, 2, 3, 8])
    m = (1 << r) - 1
    cand = list(range(r + 1, 32))
    for b in rnd.sample(cand, rnd.randint(1, max_bits)):
        m |= 1 << b
    return m


def rand_abstract(rnd, kinds=("any", "host", "prefix", "nc")) -> tuple:
    """-> (kind, base, mask)"""
    k = rnd.choice(kinds)
    base = rnd.choice([0x0A000000, 0x0A000100, 0x0A0000FF, 0xC0A80000, 0, ALL, rnd.getrandbits(32)])
    if k == "any":
        return "any", rnd.choice([0, base]), ALL
    if k == "host":
        return "host", base, 0
    if k == "prefix":
        ln = rnd.choice([1, 8, 16, 23, 24, 25, 30, 31, rnd.randint(1, 31)])
        return "prefix", base, hostmask(ln)
    return "nc", base, rand_nc_mask(rnd)


def related(rnd, kind, base, mask) -> tuple:
    """An abstract address related to (base, mask): superset / subset / sibling / same / unrelated."""
    how = rnd.choice(["same", "super", "sub", "sibling", "rand", "super", "sub"])
    if how == "same":
        return kind, base ^ (rnd.getrandbits(32) & mask), mask
    if how == "super":  # add wildcard bits
        m2 = mask
        if rnd.random() < 0.5:
            r = 0
            while r < 32 and m2 >> r & 1:
                r += 1
            m2 |= (1 << min(32, r + rnd.randint(1, 8))) - 1
        else:
            for _ in range(rnd.randint(1, 2)):
                m2 |= 1 << rnd.randint(0, 31)
        return "nc", base, m2 & ALL
    if how == "sub":  # remove wildcard bits, fix them arbitrarily
        bits = [i for i in range(32) if mask >> i & 1]
        if not bits:
            return kind, base, mask
        drop = rnd.sample(bits, rnd.randint(1, min(3, len(bits)))) if rnd.random() < 0.5 else bits[-rnd.randint(1, len(bits)):]
        m2 = mask
        for b in drop:
            m2 &= ~(1 << b)
        return "nc", base ^ (rnd.getrandbits(32) & mask), m2 & ALL
    if how == "sibling":
        nz = [i for i in range(32) if not mask >> i & 1]
        if not nz:
            return kind, base, mask
        return kind, base ^ (1 << rnd.choice(nz)), mask
    return rand_abstract(rnd)


def is_contig(mask: int) -> bool:
    return mask & (mask + 1) == 0


def spell(rnd, plat: str, base: int, mask: int, dirty=True) -> tuple:
    """One accepted spelling of the address set (base, mask): (coq spelling term, text)."""
    noise = (rnd.getrandbits(32) & mask) if dirty and rnd.random() < 0.5 else 0
    b = (base & ~mask & ALL) | noise
    forms = ["wild"]
    if mask == ALL:
        # "A.B.C.D/0" on IOS is the known finding N1 (renders the all-ones wildcard, copy() gives "any"):
        # only the kernels that own N1 (C06/C16) generate it
        forms += ["any", "any"] + (["prefix"] if plat != "ios" else [])
    if mask == 0:
        forms += ["host", "host", "prefix"]
    if is_contig(mask) and mask not in (0, ALL):
        forms += ["prefix", "prefix"]
    f = rnd.choice(forms)
    if f == "any":
        return "SAny", "any"
    if f == "host":
        return f"(SHost {b})", f"host {ip(b)}"
    if f == "prefix":
        ln = 32 - bin(mask).count("1")
        return f"(SPrefix {b} {ln}%nat)", f"{ip(b)}/{ln}"
    return f"(SWild {b} {mask})", f"{ip(b)} {ip(mask)}"


def spell_ag(rnd, plat: str, base: int, mask: int) -> tuple:
    """A spelling for an address-group member (AddressAg); IOS members use subnet masks."""
    b = base & ~mask & ALL
    forms = []
    if mask == 0:
        forms += ["host", "prefix"]
    if is_contig(mask):
        forms += ["prefix", "mask"]
    else:
        forms += ["mask"]
    f = rnd.choice(forms)
    if f == "host":
        return f"(SHost {b})", f"host {ip(b)}"
    if f == "prefix":
        ln = 32 - bin(mask).count("1")
        return f"(SPrefix {b} {ln}%nat)", f"{ip(b)}/{ln}"
    if plat == "ios":  # subnet mask
        return f"(SWild {b} {ALL ^ mask})", f"{ip(b)} {ip(ALL ^ mask)}"
    return f"(SWild {b} {mask})", f"{ip(b)} {ip(mask)}"


def in_set(x: int, base: int, mask: int) -> bool:
    return (x & ~mask & ALL) == (base & ~mask & ALL)


def subset(b1, m1, b2, m2) -> bool:
    """{x : x&~m1 == b1&~m1} is a subset of {x : x&~m2 == b2&~m2} (both sets are non-empty)."""
    return (m1 & ~m2 & ALL) == 0 and ((b1 ^ b2) & ~m2 & ALL) == 0
